#!/bin/bash
# usage: with_miri.sh <Cxx> <c08|c13> <tier>
# quick: the harness check alone. thorough: additionally runs the Miri smoke workload (24 shards,
# every planner x space family) and hands its summary to the harness, which reports undefined
# behaviour as a violation and a Miri failure / time-out as inconclusive.
set -u
prop="$1"; which="$2"; tier="${3:-quick}"
ROOT="${VERIF_ROOT:-/verif}"
B="$ROOT/.build"
BIN="${VERIF_HARNESS_BIN:-$ROOT/harness/target/release/oxverif}"
HDIR="$(dirname "$(dirname "$(dirname "$BIN")")")"
if [ "$tier" = "thorough" ] && [ -z "${VERIF_NO_MIRI:-}" ]; then
  out="$B/miri_$prop"; rm -rf "$out"; mkdir -p "$out"
  export MIRIFLAGS="-Zmiri-disable-isolation -Zmiri-deterministic-floats"
  # first shard builds (serialised by cargo's lock), the rest only run
  ( cd "$HDIR" && timeout 1500 cargo +nightly miri run --offline -- miri-smoke "$which" 0 24 >"$out/shard_0.log" 2>&1; echo "exit=$?" >>"$out/shard_0.log" )
  seq 1 23 | xargs -P 12 -I{} bash -c "cd '$HDIR' && timeout 1500 cargo +nightly miri run --offline -- miri-smoke '$which' {} 24 >'$out/shard_{}.log' 2>&1; echo \"exit=\$?\" >>'$out/shard_{}.log'"
  python3 - "$out" "$B/miri_$prop.json" <<'PY'
import glob,json,sys,re
ok=0; ub=[]; other=[]; calls=0
for f in sorted(glob.glob(sys.argv[1]+"/shard_*.log")):
    t=open(f,errors="replace").read()
    m=re.search(r"MIRI-SMOKE OK .*calls=(\d+)",t)
    if "Undefined Behavior" in t:
        i=t.index("Undefined Behavior"); ub.append({"shard":f.rsplit("/",1)[1],"report":t[max(0,i-200):i+1200]})
    elif m and "exit=0" in t:
        ok+=1; calls+=int(m.group(1))
    else:
        other.append({"shard":f.rsplit("/",1)[1],"tail":t[-600:]})
json.dump({"shards":24,"ok":ok,"calls_under_miri":calls,"undefined_behaviour":ub,"not_completed":other},open(sys.argv[2],"w"),indent=1)
print("miri: %d/24 shards ok, %d UB reports, %d not completed"%(ok,len(ub),len(other)))
PY
  export VERIF_MIRI_SUMMARY="$B/miri_$prop.json"
fi
exec "$BIN" run "$prop" "$tier"
