#!/bin/bash
# Shared pipeline of the Python checks (C19, C20): build the extension from /repo's working
# tree, generate scenarios with the core's expected results, execute them through oxmpl_py,
# verify. usage: py_common.sh <C19|C20> <quick|thorough>
set -u
prop="$1"; tier="${2:-quick}"
ROOT="${VERIF_ROOT:-/verif}"
REPO="${VERIF_REPO:-/repo}"
BIN="${VERIF_HARNESS_BIN:-$ROOT/harness/target/release/oxverif}"
B="$ROOT/.build"
if [ "$REPO" != "/repo" ]; then B="$ROOT/.build/py_$(echo "$REPO" | md5sum | cut -c1-10)"; fi
PYMOD="$B/pymod_$prop"
mkdir -p "$PYMOD"
PY=/usr/bin/python3
log="$B/pyext_build.log"
(
  flock 9
  cd "$REPO" && CARGO_TARGET_DIR="$B/pytarget" PYO3_PYTHON="$PY" cargo build -p oxmpl-py --offline >"$log" 2>&1
) 9>"$B/pyext.lock"
if [ $? -ne 0 ] || [ ! -f "$B/pytarget/debug/liboxmpl_py.so" ]; then
  echo "INCONCLUSIVE property=$prop the Python extension did not build from $REPO (see $log)"
  grep -E '^error' -A6 "$log" | head -30
  exit 2
fi
# atomic install: a concurrent run may have the old file mapped
cp "$B/pytarget/debug/liboxmpl_py.so" "$PYMOD/.oxmpl_py.so.$$" && mv -f "$PYMOD/.oxmpl_py.so.$$" "$PYMOD/oxmpl_py.so"
scen="$B/py_${prop}_${tier}_scenarios.json"
res="$B/py_${prop}_${tier}_results.json"
rm -f "$res"
"$BIN" pygen "$scen" "$tier" || exit 2
PYTHONPATH="$PYMOD" PYTHONDONTWRITEBYTECODE=1 timeout 3000 "$PY" "$ROOT/py/driver.py" "$scen" "$res" --prop "$prop" >"$B/py_${prop}_stdout.log"
rc=$?
if [ $rc -ne 0 ]; then
  echo "INCONCLUSIVE property=$prop python driver exited with $rc"
fi
if [ "$prop" = "C20" ] && [ "$tier" = "thorough" ] && [ -z "${VERIF_NO_VALGRIND:-}" ]; then
  # memcheck over exception-crossing-FFI scenarios: two per problem variant
  ids=$("$PY" - "$scen" <<'PYSEL'
import json,sys
doc=json.load(open(sys.argv[1]))
seen={}
out=[]
for s in doc["scenarios"]:
    if s["prop"]!="C20" or s["fault"] is None: continue
    if s["fault"]["kind"] not in ("raise","none"): continue
    w=s["spec"]["wrap"]; k=(w,s["fault"]["kind"])
    if k in seen: continue
    seen[k]=1; out.append(str(s["id"]))
print(",".join(out[:12]))
PYSEL
)
  vlog="$B/valgrind_C20.log"; rm -f "$vlog"
  PYTHONMALLOC=malloc PYTHONPATH="$PYMOD" PYTHONDONTWRITEBYTECODE=1 timeout 2400 valgrind --tool=memcheck --error-limit=no --leak-check=full --show-leak-kinds=definite --errors-for-leak-kinds=definite --num-callers=30 --log-file="$vlog" "$PY" "$ROOT/py/driver.py" "$scen" "$B/py_C20_valgrind_results.json" --only-ids "$ids" --jobs 1 --inline >/dev/null 2>&1
  vrc=$?
  "$PY" - "$vlog" "$B/valgrind_C20.json" "$vrc" "$ids" <<'PYSUM'
import json,re,sys
try: t=open(sys.argv[1],errors="replace").read()
except Exception: t=""
blocks=re.split(r"\n==\d+== \n",t)
bad=[]
for b in blocks:
    if ("Invalid read" in b or "Invalid write" in b or "definitely lost" in b or "Invalid free" in b or "uninitialised" in b) and "oxmpl_py" in b:
        bad.append(b[:1500])
m=re.search(r"ERROR SUMMARY: (\d+) errors",t)
json.dump({"scenario_ids":sys.argv[4],"valgrind_exit":int(sys.argv[3]),"error_summary":int(m.group(1)) if m else None,"reports_with_extension_frames":bad[:10],"completed":bool(m)},open(sys.argv[2],"w"),indent=1)
print("valgrind: exit %s, error summary %s, %d report blocks with oxmpl_py frames"%(sys.argv[3], m.group(1) if m else "n/a", len(bad)))
PYSUM
  export VERIF_VALGRIND_SUMMARY="$B/valgrind_C20.json"
fi
exec "$BIN" pyverify "$prop" "$scen" "$res" "$tier"
