#!/bin/bash
# Shared pipeline of the Python checks (C19, C20): build the extension from /repo's working
# tree, generate scenarios with the core's expected results, execute them through oxmpl_py,
# verify. usage: py_common.sh <C19|C20> <quick|thorough>
set -u
prop="$1"; tier="${2:-quick}"
ROOT="${VERIF_ROOT:-/verif}"
B="$ROOT/.build"
mkdir -p "$B/pymod"
PY=/usr/bin/python3
log="$B/pyext_build.log"
(
  flock 9
  cd /repo && CARGO_TARGET_DIR="$B/pytarget" PYO3_PYTHON="$PY" cargo build -p oxmpl-py --offline >"$log" 2>&1
) 9>"$B/pyext.lock"
if [ $? -ne 0 ] || [ ! -f "$B/pytarget/debug/liboxmpl_py.so" ]; then
  echo "INCONCLUSIVE property=$prop the Python extension did not build from /repo (see $log)"
  grep -E '^error' -A6 "$log" | head -30
  exit 2
fi
cp "$B/pytarget/debug/liboxmpl_py.so" "$B/pymod/oxmpl_py.so"
scen="$B/py_${prop}_${tier}_scenarios.json"
res="$B/py_${prop}_${tier}_results.json"
rm -f "$res"
"$ROOT/harness/target/release/oxverif" pygen "$scen" "$tier" || exit 2
PYTHONPATH="$B/pymod" PYTHONDONTWRITEBYTECODE=1 timeout 3000 "$PY" "$ROOT/py/driver.py" "$scen" "$res" --prop "$prop" >"$B/py_${prop}_stdout.log"
rc=$?
if [ $rc -ne 0 ]; then
  echo "INCONCLUSIVE property=$prop python driver exited with $rc"
fi
exec "$ROOT/harness/target/release/oxverif" pyverify "$prop" "$scen" "$res" "$tier"
