#!/bin/bash
exec "$(dirname "$0")/with_miri.sh" C13 c13 "$1"
