#!/bin/bash
exec "$(dirname "$0")/py_common.sh" C20 "$1"
