#!/bin/bash
exec "$(dirname "$0")/py_common.sh" C19 "$1"
