#!/bin/bash
exec "$(dirname "$0")/with_miri.sh" C08 c08 "$1"
