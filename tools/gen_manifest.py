#!/usr/bin/env python3
"""Regenerates /verif/MANIFEST.json from the table below (keeps the file valid at all times)."""
import json, os, subprocess, sys

ROOT = os.path.dirname(os.path.dirname(os.path.abspath(__file__)))

# id -> (implemented, category, technique, level text, note, design_ref)
CHECKS = {
    "C09": (True, "exploration",
            "runtime oracle over executed distance calls: metric axioms + independent reference on exhaustive lattice triples and seeded random triples",
            "Every distance call made by the workload (all ordered triples of a 56/110-value special lattice per space setting, plus 2e4/4e5 random triples, 28-74 space settings incl. compounds with weights 0/1e-3/1/50 and the erased *_dyn interface) is checked online against the metric axioms, the diameter bound, representation independence and an independent atan2-based reference. Exploration: holds on the executions observed, nothing more.",
            "Trusted: the reference formulas, IEEE-754 arithmetic, tolerances stated in the evidence. Inputs above 1e100 in R^n are outside the explored domain.",
            "DESIGN.md section 5 C09"),
}

NOT_YET = {
}

def main():
    repo_head = subprocess.run(["git", "-C", "/repo", "log", "--format=%H %s"], capture_output=True, text=True).stdout.splitlines()
    hook_commits = [l.split()[0] for l in repo_head if "verif hooks" in l]
    checks = []
    na = []
    props = [json.loads(l) for l in open(os.path.join(ROOT, "properties.jsonl"))]
    for p in props:
        pid = p["id"]
        if pid in CHECKS and CHECKS[pid][0]:
            _, cat, tech, text, note, ref = CHECKS[pid]
            checks.append({
                "property_id": pid,
                "quick_cmd": f"./check {pid} quick",
                "thorough_cmd": f"./check {pid} thorough",
                "evidence_file": f"/verif/evidence/{pid}.json",
                "replay_cmd_template": "./check replay {path}",
                "engine": "oxverif",
                "level_claimed": {"category": cat, "text": text, "design_ref": ref},
                "level_note": note,
                "technique": tech,
            })
        else:
            na.append({"property_id": pid, "reason": NOT_YET.get(pid, "check not built yet in this session (work in progress; see DESIGN.md section 5 for the planned monitor)")})
    m = {
        "version": 1,
        "setup_cmd": "./check build",
        "hooks": {
            "guard": "cargo feature `verif` of crate oxmpl (off by default)",
            "enable": "the harness depends on oxmpl by path with features=[\"verif\"]: /verif/harness/Cargo.toml",
            "baseline_off_cmd": "cd /repo && cargo test --workspace --no-fail-fast --offline",
            "source_commits": hook_commits,
            "add_only": True,
        },
        "engines": [{
            "name": "oxverif",
            "path": "/verif/harness",
            "serves_properties": [c["property_id"] for c in checks],
            "kind_free_text": "Rust harness linked against /repo/oxmpl (feature verif): monitored state space / goal / validity checker at the client boundary, virtual clock, snapshots, deterministic oracles over the recorded events",
        }],
        "checks": checks,
        "not_applicable": na,
        "notes": "Technique family: runtime monitoring. All verdicts are 'held on the executions listed in the evidence', 'violated (replay file)' or 'inconclusive' (exit 2).",
    }
    json.dump(m, open(os.path.join(ROOT, "MANIFEST.json"), "w"), indent=1)
    print(f"MANIFEST.json: {len(checks)} checks, {len(na)} not claimed")

if __name__ == "__main__":
    main()
