#!/usr/bin/env python3
"""Regenerates /verif/MANIFEST.json from the table below (keeps the file valid at all times)."""
import json, os, subprocess, sys

ROOT = os.path.dirname(os.path.dirname(os.path.abspath(__file__)))

# id -> (implemented, category, technique, level text, note, design_ref)
W1 = "4 planners x 6 space families x generated worlds / parameters / seeds under the virtual clock, planner-RNG and scripted sample sequences (16 000 runs quick, 1.5 million thorough; C03: 8 000 / 600 000), plus call histories (re-setup with a new checker on the same problem object, repeated solve, replaced problems, user-mutated step / radius fields) and problems that list two or three start states (valid, deep or marginally inside an obstacle); C01 also runs worlds whose declared bounds overflow the space's extent; C01 / C03 / C05 also run 64 variants of a hand-shaped world in which the tree spirals around a finite wall"
CHECKS = {
    "C01": (True, "exploration",
            "runtime monitor at the validity-checker boundary: every state of every returned path re-evaluated with the pure validity function; invalid-start cases checked against the required error",
            "Returned paths of " + W1 + " incl. starts marginally (0, 1 ulp, 1e-9) and deeply inside obstacles, goal regions overlapping / covered by obstacles and scripted samples exactly on obstacle boundaries, invalid starts that already satisfy the goal, and degenerate-metric cases (invalid states at distance exactly 0 from the start: zero-weight component twins, antipodal quaternions) are re-validated state by state. Holds on the executions observed. Every 16th run re-uses a planner object that lived (and succeeded) on a 64 times larger, coarsest-resolution space of the same type before; multi-start problems also come with a valid first start outside the sampling box; PRM histories include a refused (marginally invalid) start followed by a query whose goal is a tiny ball around that state.",
            "Trusted: purity of the harness validity function; the world generator.",
            "DESIGN.md section 5 C01"),
    "C02": (True, "exploration",
            "runtime oracle on returned paths: bit comparison of the first state with the installed start, goal predicate on the last state",
            "Returned paths of " + W1 + " are checked for non-emptiness, bit-identical start and goal satisfaction; RRT-Connect assembly kinds (direct / junction) are counted; plus degenerate-metric twins of the start, very deep trees (4 500-9 000 nodes on the solution branch) and goal regions overhanging the sampling box. PRM histories with short-lived problem definitions (freed and re-allocated) and a second setup with the same space / goal / checker objects and a -0.0 twin of the start are included.",
            "Trusted: the goal predicate of the harness goal object.",
            "DESIGN.md section 5 C02"),
    "C03": (True, "exploration",
            "offline checker over the recorded validity-query log: segment-coverage oracle (no gap above the longest valid segment between accepted on-segment queries) plus dense re-check",
            "For every segment of every returned path of " + W1 + " (walls thicker than the resolution but thinner than the step, slivers, shells, resolution fractions 2e-3..1, steps up to 10x the extent) the recorded accepted queries must cover the segment; edge kinds (extension, RRT* parent choice, rewired, RRT-Connect junction, goal-tree, PRM link, PRM start connection) are counted and required to be observed; a timed family runs the planners under the cost-model clock with solve budgets that end in the middle of an iteration and judges the paths of later calls on the same planner.",
            "Trusted: the space's own distance as the on-segment test (C09 judges it); antipodal endpoints are ambiguous.",
            "DESIGN.md section 5 C03"),
    "C04": (True, "exploration",
            "runtime oracle on returned paths: independent bounds test, precondition (start / goal samples in bounds) taken from the event log",
            "Returned paths of " + W1 + " on bounded spaces (boxes, angular intervals of every span, cones, compounds) are tested state by state with an independent bounds test; start states may carry un-normalised angles; boxes with equally long sides at different offsets. Non-convex angular regions are the known finding K-1 (keyed on the violating component kind).",
            "Trusted: reference bounds test with 1e-9 / 1e-7 allowances.",
            "DESIGN.md section 5 C04"),
    "C05": (True, "exploration",
            "runtime oracle on returned paths: consecutive-state distance against the configured limit",
            "Returned paths of " + W1 + " with steps / radii from 1e-3x to 10x the diameter are checked segment by segment in the space's own metric; start states may carry un-normalised angles or lie outside the sampling box; RRT* radii include 0; very deep trees (5 000 nodes, thorough: 70 000).",
            "Trusted: the space's own distance (C09).",
            "DESIGN.md section 5 C05"),
    "C06": (True, "exploration",
            "online deadline monitor on sampler events under a virtual clock (cost model), soundness on infeasible-by-construction worlds, query-budget trip as a logical-step progress bound",
            "12 000 (quick) / 1 000 000 (thorough) solve / construct_roadmap calls (a quarter of them warm-started: same planner and problem object first used in an empty world) with time limits 0..5000 ticks where every validity query and sampler call costs one tick (a tick is 1 microsecond, in an eighth of the cases 0.37 s, so limits range from microseconds to half an hour of virtual time; an eighth of the tree-planner cases draw scripted samples with duplicates): no iteration may begin after first-clock-read + T; no path may be returned in a world that is infeasible by construction (goal sealed by a shell >= 2 lvs thick, start sealed in, goal region invalid; sealed worlds may list an invalid extra start state inside the seal); no call may exceed a query budget >= 10x any terminating execution. Liveness is restated as this bounded-step property.",
            "Trusted: the clock shim (hook H2/H3; a solve that never read it is reported inconclusive), triangle inequality of the metric for the infeasibility argument. Known finding K-2 (resolution fraction <= 0).",
            "DESIGN.md section 5 C06"),
    "C07": (True, "exploration",
            "differential runtime check: two fresh instances with the same seed driven through the same call history, compared at every call; prefix consistency across iteration budgets; real vs virtual time",
            "6 000 / 400 000 call histories (30 % with scripted samples full of duplicates) (incl. repeated solve, re-setup, solve before setup, PRM set_problem_definition and re-construction, goal samplers that consume the generator) are executed twice and compared bit for bit (paths), by variant (errors) and by snapshot hash; plus prefix pairs (node states, final parent links, roadmap links among common milestones), clock-pacing pairs (the same number of iterations with the elapsed time distributed uniformly / front-loaded / back-loaded: results, trees and roadmaps must be identical), callback-latency pairs (240 / 16 000 histories run once with a validity checker that answers at once and once with one that takes 1 ms of real time for the first 40 queries of every public call, setup included: results and snapshots must be identical) and real-time runs.",
            "Trusted: deterministic harness callbacks; both instances share a thread so thread-local / OS entropy shows up as a difference.",
            "DESIGN.md section 5 C07"),
    "C08": (True, "fault_enumeration",
            "reference-model monitor of the planner API state machine over call histories, sampler fault injection at every call index k < 12, out-of-range parameters, panic monitor over well-formed runs (thorough: + Miri)",
            "Every call of 8 000 / 250 000 random histories (length <= 8; thorough: all sequences of length <= 5 on 48 worlds) is compared with a sequential model (uninitialised / unsampled / invalid start / answers the installed problem); uniform and goal samplers fail at call k for every k < 12; goal bias in {-0.1, 1.5, NaN, +-inf}; empty start list; negative / zero numeric parameters; 4 000 / 300 000 generated scenarios run under the panic monitor. Panics keyed on (planner, injected trigger) are the known finding K-3; any other panic or model mismatch is a violation. PRM histories also run with a failing goal sampler (incl. tiny goal regions) and with a second problem that shares the goal / space objects of the first and starts from a rejected state.",
            "Trusted: the reference model (40 lines), catch_unwind. After a panic the history stops.",
            "DESIGN.md section 5 C08"),
    "C15": (True, "exploration",
            "structural invariant hook checked at every quiescent point of single-stepped planners (snapshot H4), edge coverage from the query log",
            "RRT / RRT-Connect / RRT* are single-stepped (a budget of half a sampler tick under the virtual clock = one iteration) through scripted samples over alphabets with duplicates, seam / antipodal and boundary states (3 000 / 200 000 random scripts, 30 % with a re-setup half-way, 25 % with a step that equals a letter distance exactly; all scripts up to depth 4 - thorough: 5 on a quarter of the worlds - over a 6-letter alphabet on 6 / 96 worlds); after every step the snapshot is checked for parents in range, single root = start / goal sample, acyclicity (bounded walk), node validity (goal-side root included), edge length and motion-check coverage; the same on the trees left by whole solve calls of 8-68 iterations; problems may list further start states (extra roots admissible for valid listed states only). A tenth of the traces start on a planner object with an earlier life on another (larger, coarser) space.",
            "Trusted: snapshot accessor (read-only clone); space's distance for coverage.",
            "DESIGN.md section 5 C15"),
    "C16": (True, "exploration",
            "transition monitor over consecutive snapshots + the logged sample of each single-stepped iteration; Hoeffding bound on goal-sample frequency",
            "Each observed transition is checked against the nearest-node / one-step rule (ties existential), at most one node per tree, rejection only after a rejected query, RRT-Connect balance / connect / termination rules; whole solve calls of 8-68 iterations must be explainable node by node (insertion order) by the samples they drew (existential; covers state carried between iterations of one call); goal-bias frequencies over 24 / 96 long seeded runs (biases 0, 0.004, 0.05, 0.3, 0.5, 0.9, 0.996, 1; Hoeffding plus a multiplicative Chernoff bound for the rare outcome) (half of them with the public goal_bias field changed after setup) against Hoeffding at alpha 1e-9; the absolute settings (bias 0: never a goal sample, bias 1: never a uniform one) are also run for 16 x 20 million / 64 x 60 million iterations of RRT and RRT* in a world where only the start state is valid.",
            "Trusted: tolerances of DESIGN.md section 3.",
            "DESIGN.md section 5 C16"),
    "C17": (True, "exploration",
            "transition monitor for RRT* (snapshot with costs before / after, per-step query log) plus RRT-vs-RRT* differential on the same seed",
            "For every RRT* extension: cost = parent cost + edge, parent in the candidate set, no cheaper neighbour skipped unless a query on its motion was rejected, parent link and rewired links validated in that iteration, exactly the neighbours that become cheaper are re-parented, others untouched, recorded cost >= true branch length; 1 500 / 100 000 RRT-vs-RRT* pairs (same end state up to rounding, RRT* not longer; half with generator-consuming goal samplers, a fifth after a refused solve-before-setup); radii incl. 0 and negative. A quarter of the RRT-vs-RRT* pairs run on planner objects that solved a problem on another space before.",
            "Trusted: tolerances; the existential treatment of tied nearest nodes.",
            "DESIGN.md section 5 C17"),
    "C18": (True, "exploration",
            "roadmap snapshot compared with the accepted samples of the event log, graph invariants, link completeness, reference multi-source BFS for every query",
            "6 000 / 250 000 PRM life cycles (incl. a second life after a new setup) with exact sample budgets (virtual clock), scripted (incl. all scripts to depth 4) and planner-RNG samples, radii from isolated nodes to complete graphs plus NaN / inf / 0 / negative ones, obstacle-free and obstructed worlds, replaced problems, and a query that runs out of time in the middle of the graph search (every clock read costs a tick) followed by the same query with time. Radii are also set one to three ulps above the distance of a scripted pair, and every life cycle ends with a query from a problem definition that shares the goal / space objects of the first.",
            "Trusted: reference BFS; start links bracketed between certain and possible in obstructed worlds (exact in obstacle-free ones).",
            "DESIGN.md section 5 C18"),
    "C09": (True, "exploration",
            "runtime oracle over executed distance calls: metric axioms + independent reference on exhaustive lattice triples and seeded random triples",
            "Every distance call made by the workload (all ordered triples of a 56/150-value special lattice per space setting, plus 2e4/1.5e6 random triples, about 45-90 space settings (bounded and unbounded, R^1..R^33) incl. compounds with weights 0/1e-3/1/50/-2 and the erased *_dyn interface) is checked online against the metric axioms, the diameter bound, representation independence and an independent atan2-based reference. Exploration: holds on the executions observed, nothing more. An overflow band (coordinates around 1e200) is visited for every space with a real-vector component: the distance there must be a number, not negative, symmetric and zero on the diagonal (known finding K-4: 0 * inf = NaN in compounds with a zero-weight overflowing component).",
            "Trusted: the reference formulas, IEEE-754 arithmetic, tolerances stated in the evidence. Inputs above 1e100 in R^n are outside the explored domain.",
            "DESIGN.md section 5 C09"),
    "C10": (True, "exploration",
            "runtime oracle over executed interpolate calls: endpoint, constant-speed law, canonical form, reversal, erased-interface equality",
            "Every interpolate call of the workload (all ordered pairs of a 60/150-value special lattice x 10 values of t per space setting (bounded and unbounded, states outside the bounds included), plus seeded random pairs; the output state starts from an unrelated scratch state) is checked online against t*d / (1-t)*d, canonical form, I(b,a,1-t) and the *_dyn interface. Holds on the executions observed.",
            "Trusted: the space's own distance for measuring (judged separately by C09), stated tolerances (5e-6 for the SO3 normalised-LERP branch).",
            "DESIGN.md section 5 C10"),
    "C11": (True, "exploration",
            "runtime assertions on sample_uniform / enforce_bounds / satisfies_bounds executions with an independent bounds test and a draw-budgeted generator",
            "Hostile states (far outside, on and one ulp around the boundary, non-canonical angles, zero and non-unit quaternions) are enforced and 2e3/2e5 samples are drawn per constructible bound setting (about 170/420 settings over all six spaces, SO3 cones from 1e-3 rad to pi (sampled from 0.04 rad up), SO2 intervals a few ulps wide or touching +-pi); boxes with up to 17 coordinates and probes with exactly one coordinate outside; each execution is checked for agreement of the three operations, canonical form (the enforced angle numerically inside its interval), idempotence, an independent bounds test and absence of panics.",
            "Trusted: reference bounds test with 1e-9 (2.5e-7 for SO3) allowance. SO3 cones in [1e-9,0.1) rad are enforced but not sampled.",
            "DESIGN.md section 5 C11"),
    "C12": (True, "exploration",
            "exhaustive enumeration of a finite constructor-argument lattice, each execution judged by a well-formedness oracle and followed by usability probes under a panic monitor",
            "All constructor argument tuples of the C12 lattice (about 1.9 million executions quick / 71 million thorough: dimension x bounds-length combinations, all ordered bound pairs over 20 special values - thorough: all triples of pairs for 3-D boxes -, 939 angles, 194 481 quaternions) are executed; Ok results must store well-formed bounds and survive sampling and bounds operations without panicking, Err results must be the documented variant for a real fault. The lattice is enumerated completely; nothing is claimed outside it.",
            "Trusted: the well-formedness predicate written in the harness; 'Err for out-of-range but overlapping SO2 intervals' is accepted either way.",
            "DESIGN.md section 5 C12"),
    "C13": (True, "exploration",
            "differential runtime check: every compound / SE2 / SE3 operation against the same operation carried out on typed component spaces",
            "Compound distance, interpolation, enforce, satisfies, sampling and resolution are compared - bit for bit except for the 1e-12 relative distance law (plain or overflow-safe accumulation) and sampling (bit-exact under some order of component draws, else statistically: bounds + two-sample KS of every marginal) - with the typed component spaces for all ordered layouts of 1-2 components (quick) / 1-4 components (thorough, 2800 layouts), after the public weights were changed, and SE2/SE3 against the explicit compound with weights (1,w) incl. yaw intervals at least a full turn wide and non-unit quaternions; also through the erased interface; nested layouts (compounds whose components are compounds, SE2 or SE3 spaces, up to three levels deep: 47 quick / 607 thorough) are judged by the same law at every group; the thorough tier adds a Miri run.",
            "Trusted: component operations (judged by C09-C12).",
            "DESIGN.md section 5 C13"),
    "C14": (True, "exploration",
            "statistical runtime monitor: DKW goodness-of-fit of large samples against exact marginal laws and two-sample DKW independence tests at alpha = 1e-9",
            "2e5 (quick) / 5e6 (thorough) samples per setting (tight SO3 cones: 3e3+) are drawn through sample_uniform and every scalar statistic (quaternion coordinates on absolute values: q and -q are one rotation; wide cones, cones around large rotations, a 0.07 rad cone and a 50-dimensional box in every run) is compared with its exact law; a deviation above the DKW epsilon (7.3e-3 / 1.5e-3) is a violation with false-alarm probability below 1e-6 per run. Biases below epsilon are invisible. A 0.033 rad cone is sampled 40 times (epsilon 0.52).",
            "Trusted: ChaCha8 as the source of randomness; exact marginal laws derived in DESIGN.md.",
            "DESIGN.md section 5 C14"),
    "C19": (True, "exploration",
            "differential runtime check across the language boundary: the same seeded scenarios executed through oxmpl_py (Python callbacks with bit-identical arithmetic) and through the core, compared bit for bit",
            "240 / 2400 scenarios (6 problem-definition variants x 4 planners x generated worlds / parameters / seeds) are run through the freshly built extension module; RRT / RRT-Connect / RRT* paths must equal the core's bit for bit (and make the same number of validity queries and goal-sampler calls; some goal samplers return states outside the goal; some resolution fractions lie outside (0,1]) and errors by kind, PRM paths must be sound under the same primitives; about 2300 wrapper probes over the C12 lattice compare ValueError-vs-Err, distances, extents and canonicalised angles bitwise. A fifth of the scenarios use a step that is a whole number of motion-check intervals (query counts then react to the last bits of the resolution fraction); a tenth of the obstacle-free / plain ones start inside the goal with a sampler that returns the start (repeated-state answers).",
            "Trusted: CPython floats are IEEE doubles; a wall-clock time-out on the Python side makes that case inconclusive. The extension is rebuilt from /repo's working tree (cargo build -p oxmpl-py, debug profile).",
            "DESIGN.md section 5 C19"),
    "C20": (True, "fault_enumeration",
            "fault injection in Python callbacks (raise - seven exception classes incl. InterruptedError, KeyboardInterrupt and one whose __str__ raises - / None / str / int / float / list / (True, text) tuple / truthy non-bool object, on a fault region or at the k-th call for k < 10) with a differential oracle against the callback that returns False in the same situations and against the core on world + region",
            "192 / 960 groups of runs per tier on seeded scenarios over all six Python problem variants and four planners; a failing callback must give the identical path / error as one returning False and never a path through the fault region; the goal object is itself callable and must never be consulted that way. Only the Python binding is executed: the JavaScript binding (oxmpl-js) cannot run in this image (no wasm32 target, no wasm-bindgen) - that half of the property is not covered. Further fault shapes: a window of 130-400 consecutive failing calls after which the callback works again, and a zero-dimensional-array look-alike (item(), __bool__). Every run is also held to a load-independent invariant: validity queries that reached the Python callback >= goal samples drawn - 100.",
            "Trusted: determinism of the seeded planners (C07); PRM (wall-clock build) and timed-out runs are only checked for 'no state in the fault region'.",
            "DESIGN.md section 5 C20"),
}

NOT_YET = {
}

def main():
    repo_head = subprocess.run(["git", "-C", "/repo", "log", "--format=%H %s"], capture_output=True, text=True).stdout.splitlines()
    hook_commits = [l.split()[0] for l in repo_head if "verif hooks" in l]
    checks = []
    na = []
    props = [json.loads(l) for l in open(os.path.join(ROOT, "properties.jsonl"))]
    for p in props:
        pid = p["id"]
        if pid in CHECKS and CHECKS[pid][0]:
            _, cat, tech, text, note, ref = CHECKS[pid]
            checks.append({
                "property_id": pid,
                "quick_cmd": f"./check {pid} quick",
                "thorough_cmd": f"./check {pid} thorough",
                "evidence_file": f"/verif/evidence/{pid}.json",
                "replay_cmd_template": "./check replay {path}",
                "engine": "oxverif",
                "level_claimed": {"category": cat, "text": text, "design_ref": ref},
                "level_note": note,
                "technique": tech,
            })
        else:
            na.append({"property_id": pid, "reason": NOT_YET.get(pid, "check not built yet in this session (work in progress; see DESIGN.md section 5 for the planned monitor)")})
    m = {
        "version": 1,
        "setup_cmd": "./check build",
        "hooks": {
            "guard": "cargo feature `verif` of crate oxmpl (off by default)",
            "enable": "the harness depends on oxmpl by path with features=[\"verif\"]: /verif/harness/Cargo.toml",
            "baseline_off_cmd": "cd /repo && cargo test --workspace --no-fail-fast --offline",
            "source_commits": hook_commits,
            "add_only": True,
        },
        "engines": [{
            "name": "oxverif",
            "path": "/verif/harness",
            "serves_properties": [c["property_id"] for c in checks],
            "kind_free_text": "Rust harness linked against /repo/oxmpl (feature verif): monitored state space / goal / validity checker at the client boundary, virtual clock, snapshots, deterministic oracles over the recorded events",
        }],
        "checks": checks,
        "not_applicable": na,
        "notes": "Technique family: runtime monitoring. All verdicts are 'held on the executions listed in the evidence', 'violated (replay file)' or 'inconclusive' (exit 2).",
    }
    json.dump(m, open(os.path.join(ROOT, "MANIFEST.json"), "w"), indent=1)
    print(f"MANIFEST.json: {len(checks)} checks, {len(na)} not claimed")

if __name__ == "__main__":
    main()
