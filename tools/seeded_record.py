#!/usr/bin/env python3
"""Folds evaluation logs (tools/seeded.sh eval ... output, as written by the batch scripts) into
/verif/seeded/<name>/meta.json and regenerates /verif/seeded/README.md.
usage: seeded_record.py [evallog ...]"""
import glob, json, os, re, sys

ROOT = "/verif/seeded"
ALL = "C01 C02 C03 C04 C05 C06 C07 C08 C09 C10 C11 C12 C13 C14 C15 C16 C17 C18".split()

def fold(log):
    cur = None
    for line in open(log, errors="replace"):
        m = re.match(r"##### (C\d\d)/(\d+)(?: \((\w+)\))?", line)
        if m:
            cur = m.group(3) or f"{m.group(1)}_{m.group(2)}"; data = {"signatures": {}, "checks_run": None}
            continue
        m = re.match(r"##### /verif/seeded/(\w+)/patch.diff", line)
        if m:
            cur = m.group(1); data = {"signatures": {}, "checks_run": None}
            continue
        if cur is None:
            continue
        m = re.match(r"CHECKS_RUN: (.*)", line)
        if m:
            data["checks_override"] = m.group(1).split()
            continue
        m = re.match(r"(C\d\d) rc=(\d) *(.*)", line)
        if m and m.group(2) == "1":
            data["signatures"][m.group(1)] = [s.strip() for s in m.group(3).split(";") if s.strip()][:3]
        m = re.match(r"CAUGHT_BY:(.*)", line)
        if m:
            p = os.path.join(ROOT, cur, "meta.json")
            if os.path.exists(p):
                meta = json.load(open(p))
                if data.get("checks_override"):
                    # second pass with the final harness: the property's own check (+ the ones recorded before)
                    meta["final_check"] = {"how": "tools/seeded.sh eval with the harness as committed at the end; only the listed checks were run", "checks_run": data["checks_override"], "caught_by": m.group(1).split(), "signatures": data["signatures"]}
                else:
                    meta["evaluation"] = {"how": "tools/seeded.sh eval: patch applied to a private worktree of /repo HEAD, all quick checks of the group run through VERIF_REPO at VERIF_SEED=0 (harness as of that time)", "checks_run": ALL, "caught_by": m.group(1).split(), "signatures": data["signatures"]}
                json.dump(meta, open(p, "w"), indent=1)
            cur = None

def readme():
    rows = []
    for d in sorted(glob.glob(ROOT + "/*/meta.json")):
        name = os.path.basename(os.path.dirname(d))
        m = json.load(open(d))
        ev = m.get("evaluation", {})
        fc = m.get("final_check", {})
        prop = m.get("property", name[:3])
        union = sorted(set(ev.get("caught_by", [])) | set(fc.get("caught_by", [])))
        own = "yes" if prop in fc.get("caught_by", []) or (not fc and prop in ev.get("caught_by", [])) else ("no" if (fc or ev) else "?")
        rows.append((name, prop, (m.get("summary", "") or "").replace("\n", " ")[:170], (m.get("needs", "") or "").replace("\n", " ")[:150], " ".join(union) or ("(not evaluated yet)" if not (ev or fc) else "MISSED"), own))
    with open(ROOT + "/README.md", "w") as f:
        f.write("# Seeded changes\n\nEach directory holds `patch.diff` (applies to /repo HEAD), the sub-agent's demonstration (`demo.*`: passes on the clean tree, fails with the change) and `meta.json` (what the change needs to manifest, what was run to confirm it, which quick checks catch it). None of these changes is ever committed to /repo.\n\n")
        f.write("`caught by` is the union of the full evaluation made when the change came in (all quick checks, harness of that time) and the final pass (harness as committed; the property's own check plus the ones recorded before). `own` says whether the check of the very property the change was written against reports it with the final harness.\n\n")
        f.write("| name | property | change | needs | caught by (quick, seed 0) | own |\n|---|---|---|---|---|---|\n")
        for r in rows:
            f.write("| " + " | ".join(x.replace("|", "/") for x in r) + " |\n")
    print(f"README: {len(rows)} seeded changes")

for log in sys.argv[1:]:
    fold(log)
readme()
