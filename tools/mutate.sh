#!/bin/bash
# usage: tools/mutate.sh <file-relative-to-/repo> <python-expr old> <new> -- <check ids...>
# Applies a textual mutation to /repo's working tree, runs the given quick checks, restores.
set -u
f="$1"; old="$2"; new="$3"; shift 3
[ "$1" = "--" ] && shift
python3 - "$f" "$old" "$new" <<'PY'
import sys
p='/repo/'+sys.argv[1]; s=open(p).read()
old=sys.argv[2].encode().decode('unicode_escape'); new=sys.argv[3].encode().decode('unicode_escape')
assert s.count(old)>=1, "pattern not found"
s=s.replace(old,new,1); open(p,'w').write(s)
PY
[ $? -ne 0 ] && { echo "mutation not applied"; exit 9; }
for c in "$@"; do
  out=$(/verif/check $c quick 2>&1)
  echo "$out" | grep -E "^VIOLATION|^INCONCLUSIVE" | head -3 | cut -c1-200
  echo "$out" | grep -E "^  signature=" | sed 's/detail=.*//' | sort | uniq -c | head -8
  echo "$out" | tail -1 | cut -c1-200
done
git -C /repo checkout -- .
