#!/bin/bash
# Seeded-defect workflow.
#   tools/seeded.sh confirm <deliver_dir> <k> <name>   confirm change k of a sub-agent in a scratch worktree
#                                                      and store it as /verif/seeded/<name>/
#   tools/seeded.sh run <name> <check ids...>          apply /verif/seeded/<name>/patch.diff to /repo, run the
#                                                      quick checks, restore /repo; prints which ones fire
set -u
cmd="$1"; shift
CONF="${CONFIRM_WT:-/tmp/confirm_wt}"
case "$cmd" in
confirm)
  dir="$1"; k="$2"; name="$3"
  diff="$dir/change_$k.diff"; meta="$dir/meta_$k.json"
  demo=$(ls "$dir"/demo_$k.* 2>/dev/null | head -1)
  [ -f "$diff" ] && [ -n "$demo" ] || { echo "missing deliverables in $dir for k=$k"; exit 2; }
  if [ ! -d "$CONF" ]; then git -C /repo worktree add -q --detach "$CONF" HEAD || exit 2; fi
  git -C "$CONF" checkout -q --detach "$(git -C /repo rev-parse HEAD)" && git -C "$CONF" checkout -q -- . && git -C "$CONF" clean -qfd -e target
  ext="${demo##*.}"
  run_demo() {
    if [ "$ext" = "rs" ]; then
      cp "$demo" "$CONF/oxmpl/tests/seeded_demo.rs"
      (cd "$CONF" && CARGO_NET_OFFLINE=true timeout 900 cargo test -p oxmpl --offline --test seeded_demo 2>&1 | tail -15)
      return ${PIPESTATUS[0]}
    else
      (cd "$CONF" && cargo build -p oxmpl-py --offline >${CONF}_pybuild.log 2>&1) || { tail -5 ${CONF}_pybuild.log; return 99; }
      mkdir -p ${CONF}_py && cp "$CONF/target/debug/liboxmpl_py.so" ${CONF}_py/.tmp.so && mv -f ${CONF}_py/.tmp.so ${CONF}_py/oxmpl_py.so
      PYTHONPATH=${CONF}_py timeout 900 /usr/bin/python3 "$demo" >${CONF}_demo.out 2>&1
      local prc=$?
      tail -8 ${CONF}_demo.out
      return $prc
    fi
  }
  echo "== demo on the unchanged tree (must pass)"
  out=$(run_demo); rc=$?; echo "$out" | tail -4
  if [ "$ext" = "rs" ]; then echo "$out" | grep -q "test result: ok" || { echo "CONFIRM FAILED: demo does not pass on the clean tree"; exit 1; }; else [ $rc -eq 0 ] || { echo "CONFIRM FAILED: demo does not pass on the clean tree"; exit 1; }; fi
  echo "== apply the change"
  git -C "$CONF" apply "$diff" || { echo "CONFIRM FAILED: patch does not apply"; exit 1; }
  echo "== demo with the change (must fail)"
  out=$(run_demo); rc=$?; echo "$out" | tail -4
  if [ "$ext" = "rs" ]; then echo "$out" | grep -q "test result: ok" && { echo "CONFIRM FAILED: demo still passes with the change"; exit 1; }; echo "$out" | grep -qE "test result: FAILED|panicked|error: test failed" || { echo "CONFIRM FAILED: demo did not run"; exit 1; }; else [ $rc -ne 0 ] || { echo "CONFIRM FAILED: demo still passes with the change"; exit 1; }; fi
  echo "== existing suite with the change (must pass; prm_so3ss is flaky)"
  rm -f "$CONF/oxmpl/tests/seeded_demo.rs"
  suite=$(cd "$CONF" && CARGO_NET_OFFLINE=true timeout 1800 cargo test --workspace --no-fail-fast --offline 2>&1)
  failed=$(echo "$suite" | grep -E "^test .* FAILED" | grep -v "test_prm_finds_path_in_so3ss" | head -5)
  passed=$(echo "$suite" | grep -E "^test result" | awk '{p+=$4} END {print p}')
  echo "passed=$passed failed=[$failed]"
  if [ -n "$failed" ] || ! echo "$suite" | grep -q "test result"; then echo "CONFIRM FAILED: the existing suite fails with the change"; git -C "$CONF" checkout -q -- .; exit 1; fi
  git -C "$CONF" checkout -q -- .
  mkdir -p "/verif/seeded/$name"
  cp "$diff" "/verif/seeded/$name/patch.diff"; cp "$demo" "/verif/seeded/$name/demo.$ext"
  python3 - "$meta" "/verif/seeded/$name/meta.json" "$passed" <<'PY'
import json,sys
try: m=json.load(open(sys.argv[1]))
except Exception as e: m={"note":"sub-agent meta unreadable: %r"%e}
m["confirmed"]={"demo_passes_on_clean_tree":True,"demo_fails_with_change":True,"existing_suite_passes_with_change":True,"tests_passed":sys.argv[3],
  "how":"tools/seeded.sh confirm: scratch worktree of /repo HEAD under /tmp, demo run before/after `git apply`, then `cargo test --workspace --no-fail-fast --offline`"}
json.dump(m,open(sys.argv[2],"w"),indent=1)
PY
  echo "CONFIRMED -> /verif/seeded/$name"
  ;;
run)
  name="$1"; shift
  p="/verif/seeded/$name/patch.diff"
  [ -f "$p" ] || { echo "no such seeded change $name"; exit 2; }
  [ -z "$(git -C /repo status --porcelain)" ] || { echo "/repo is not clean"; exit 2; }
  git -C /repo apply "$p" || { echo "patch does not apply to /repo"; exit 2; }
  caught=""
  for c in "$@"; do
    out=$(/verif/check "$c" quick 2>&1); rc=$?
    sigs=$(echo "$out" | grep -E "^  signature=" | sed 's/ detail=.*//; s/  signature=//' | sort | uniq -c | sort -rn | head -4 | tr '\n' ';')
    echo "$c rc=$rc $sigs"
    [ $rc -eq 1 ] && caught="$caught $c"
  done
  git -C /repo checkout -- .
  echo "CAUGHT_BY:$caught"
  ;;
eval)
  # tools/seeded.sh eval <patch.diff> <check ids...> : apply the patch to a private worktree
  # (/tmp/eval_wt) and run the quick checks against it through VERIF_REPO; /repo is untouched.
  patch="$1"; shift
  EV="${EVAL_WT:-/tmp/eval_wt}"
  if [ ! -d "$EV" ]; then git -C /repo worktree add -q --detach "$EV" HEAD || exit 2; fi
  git -C "$EV" checkout -q --detach "$(git -C /repo rev-parse HEAD)" && git -C "$EV" checkout -q -- . && git -C "$EV" clean -qfd -e target
  git -C "$EV" apply "$patch" || { echo "patch does not apply"; exit 2; }
  caught=""
  for c in "$@"; do
    out=$(VERIF_REPO="$EV" /verif/check "$c" quick 2>&1); rc=$?
    sigs=$(echo "$out" | grep -E "^  signature=" | sed 's/ detail=.*//; s/  signature=//' | sort | uniq -c | sort -rn | head -3 | tr '\n' ';')
    echo "$c rc=$rc $sigs"
    [ $rc -eq 1 ] && caught="$caught $c"
    [ $rc -ge 2 ] && echo "$out" | grep -E "^INCONCLUSIVE" | head -2 | cut -c1-200
  done
  git -C "$EV" checkout -q -- .
  echo "CAUGHT_BY:$caught"
  ;;
esac
