//! Planner driver: builds the monitored problem, drives the four planners through their
//! public API under the virtual clock, catches panics and takes snapshots (hook H4).
use crate::monitor::{BudgetTrip, Ev, Log, LogRc, MonChecker, MonGoal, MonSpace, SampleMode, WorldEval};
use crate::spec::Kit;
use crate::world::{PKind, PParams, Problem};
use oxmpl::base::error::PlanningError;
use oxmpl::base::planner::{Planner, PlannerConfig};
use oxmpl::base::problem_definition::ProblemDefinition;
use oxmpl::base::validity::StateValidityChecker;
use oxmpl::geometric::{PRM, RRT, RRTConnect, RRTStar};
use serde_json::{json, Value};
use std::cell::RefCell;
use std::panic::{catch_unwind, AssertUnwindSafe};
use std::sync::Arc;
use std::time::Duration;

#[derive(Clone, Copy, Debug, PartialEq, Eq, Hash)]
pub enum ErrKind {
    Timeout,
    NoSolutionFound,
    PlannerUninitialised,
    InvalidStartState,
    UnsampledStateSpace,
}
impl From<&PlanningError> for ErrKind {
    fn from(e: &PlanningError) -> Self {
        match e {
            PlanningError::Timeout => ErrKind::Timeout,
            PlanningError::NoSolutionFound => ErrKind::NoSolutionFound,
            PlanningError::PlannerUninitialised => ErrKind::PlannerUninitialised,
            PlanningError::InvalidStartState => ErrKind::InvalidStartState,
            PlanningError::UnsampledStateSpace => ErrKind::UnsampledStateSpace,
        }
    }
}

#[derive(Clone, Debug, PartialEq)]
pub enum Res {
    Path(Vec<Vec<f64>>),
    Err(ErrKind),
    /// unit-returning call completed
    Done,
    Panic { msg: String, loc: String },
    Budget,
}
impl Res {
    pub fn short(&self) -> String {
        match self {
            Res::Path(p) => format!("Ok(path of {} states)", p.len()),
            Res::Err(e) => format!("Err({e:?})"),
            Res::Done => "Done".into(),
            Res::Panic { msg, loc } => format!("PANIC at {loc}: {}", crate::util::trunc(msg, 160)),
            Res::Budget => "QUERY-BUDGET-EXHAUSTED".into(),
        }
    }
    pub fn to_json(&self) -> Value {
        match self {
            Res::Path(p) => json!({"path": p.iter().map(|s| crate::util::fjs(s)).collect::<Vec<_>>()}),
            o => json!(o.short()),
        }
    }
    pub fn is_path(&self) -> bool {
        matches!(self, Res::Path(_))
    }
}

// ------------------------------------------------------------------------------------------
// panic capture
// ------------------------------------------------------------------------------------------
thread_local! {
    static LAST_PANIC: RefCell<Option<(String, String)>> = const { RefCell::new(None) };
    static GUARD_DEPTH: std::cell::Cell<u32> = const { std::cell::Cell::new(0) };
}
pub fn install_panic_hook() {
    std::panic::set_hook(Box::new(|info| {
        if info.payload().downcast_ref::<BudgetTrip>().is_some() {
            return;
        }
        let msg = if let Some(s) = info.payload().downcast_ref::<&str>() {
            s.to_string()
        } else if let Some(s) = info.payload().downcast_ref::<String>() {
            s.clone()
        } else {
            "<non-string panic payload>".to_string()
        };
        let loc = info.location().map(|l| format!("{}:{}", l.file(), l.line())).unwrap_or_default();
        // panics of the harness itself must stay visible
        if GUARD_DEPTH.with(|d| d.get()) == 0 {
            eprintln!("[harness panic] {loc}: {msg}");
        }
        LAST_PANIC.with(|p| *p.borrow_mut() = Some((msg, loc)));
    }));
}
/// Run `f`, mapping an unwind to Res::Panic / Res::Budget.
pub fn guarded<T>(f: impl FnOnce() -> T) -> Result<T, Res> {
    LAST_PANIC.with(|p| *p.borrow_mut() = None);
    GUARD_DEPTH.with(|d| d.set(d.get() + 1));
    let r = catch_unwind(AssertUnwindSafe(f));
    GUARD_DEPTH.with(|d| d.set(d.get() - 1));
    match r {
        Ok(v) => Ok(v),
        Err(payload) => {
            if payload.downcast_ref::<BudgetTrip>().is_some() {
                Err(Res::Budget)
            } else {
                let (msg, loc) = LAST_PANIC.with(|p| p.borrow_mut().take()).unwrap_or_default();
                Err(Res::Panic { msg, loc })
            }
        }
    }
}

// ------------------------------------------------------------------------------------------
// snapshots
// ------------------------------------------------------------------------------------------
#[derive(Clone, Debug, PartialEq)]
pub struct TNode {
    pub s: Vec<f64>,
    pub parent: Option<usize>,
    pub cost: f64,
}
#[derive(Clone, Debug, PartialEq)]
pub enum Snap {
    Tree(Vec<TNode>),
    Trees(Vec<TNode>, Vec<TNode>),
    Roadmap(Vec<(Vec<f64>, Vec<usize>)>),
}
impl Snap {
    pub fn hash(&self) -> u64 {
        use crate::util::{fnv, hash_f64s, FNV0};
        let ht = |h: u64, t: &Vec<TNode>| {
            let mut h = fnv(h, t.len() as u64);
            for n in t {
                h = hash_f64s(h, &n.s);
                h = fnv(h, n.parent.map(|p| p as u64 + 1).unwrap_or(0));
                h = fnv(h, n.cost.to_bits());
            }
            h
        };
        match self {
            Snap::Tree(t) => ht(FNV0, t),
            Snap::Trees(a, b) => ht(ht(FNV0, a), b),
            Snap::Roadmap(r) => {
                let mut h = fnv(FNV0, r.len() as u64);
                for (s, e) in r {
                    h = hash_f64s(h, s);
                    for x in e {
                        h = fnv(h, *x as u64);
                    }
                }
                h
            }
        }
    }
    pub fn size(&self) -> usize {
        match self {
            Snap::Tree(t) => t.len(),
            Snap::Trees(a, b) => a.len() + b.len(),
            Snap::Roadmap(r) => r.len(),
        }
    }
    pub fn to_json(&self) -> Value {
        let tj = |t: &Vec<TNode>| {
            Value::Array(t.iter().map(|n| json!({"s":crate::util::fjs(&n.s),"parent":n.parent,"cost":crate::util::fj(n.cost)})).collect())
        };
        match self {
            Snap::Tree(t) => json!({"tree": tj(t)}),
            Snap::Trees(a, b) => json!({"start_tree": tj(a), "goal_tree": tj(b)}),
            Snap::Roadmap(r) => json!({"roadmap": r.iter().map(|(s,e)| json!({"s":crate::util::fjs(s),"edges":e})).collect::<Vec<_>>()}),
        }
    }
}

// ------------------------------------------------------------------------------------------
// the driver
// ------------------------------------------------------------------------------------------
type Pd<K> = ProblemDefinition<<K as Kit>::S, MonSpace<K>, MonGoal<K>>;

pub enum AnyPlanner<K: Kit> {
    Rrt(RRT<K::S, MonSpace<K>, MonGoal<K>>),
    Connect(RRTConnect<K::S, MonSpace<K>, MonGoal<K>>),
    Star(RRTStar<K::S, MonSpace<K>, MonGoal<K>>),
    Prm(PRM<K::S, MonSpace<K>, MonGoal<K>>),
}

/// One monitored problem instance (space + goal + checker sharing one event log).
#[derive(Clone)]
pub struct Installed<K: Kit> {
    pub problem: Problem,
    pub pd: Arc<Pd<K>>,
    pub checker: Arc<MonChecker<K>>,
}

pub struct Drv<K: Kit> {
    pub kit: K,
    pub params: PParams,
    pub planner: AnyPlanner<K>,
    pub log: LogRc,
    /// the problem most recently installed by setup / set_problem_definition
    pub current: Option<Installed<K>>,
    /// the checker installed by the last setup (PRM keeps it across set_problem_definition)
    pub checker_problem: Option<Problem>,
    pub last_call_clock_reads: u64,
    pub last_call_v0: u64,
    pub last_call_first_read: Option<u64>,
    pub prm_build_secs: f64,
    pub pending_sample_budget: Option<u64>,
    /// clock pacing for the next solve / construct_roadmap call (see `Log::tick_plan`)
    pub pending_tick_plan: Option<Vec<u64>>,
}

pub const MS: u64 = 1_000_000;

impl<K: Kit> Drv<K> {
    pub fn new(kit: &K, params: &PParams, prm_build_secs: f64) -> Result<Self, Res> {
        let cfg = PlannerConfig { seed: params.seed };
        let p = params.clone();
        let planner = guarded(|| match p.kind {
            PKind::Rrt => AnyPlanner::Rrt(RRT::new(p.max_distance, p.goal_bias, &cfg)),
            PKind::Connect => AnyPlanner::Connect(RRTConnect::new(p.max_distance, p.goal_bias, &cfg)),
            PKind::Star => AnyPlanner::Star(RRTStar::new(p.max_distance, p.goal_bias, p.search_radius, &cfg)),
            PKind::Prm => AnyPlanner::Prm(PRM::new(prm_build_secs, p.connection_radius, &cfg)),
        })?;
        Ok(Drv {
            kit: kit.clone(),
            params: params.clone(),
            planner,
            log: Log::new(),
            current: None,
            checker_problem: None,
            last_call_clock_reads: 0,
            last_call_v0: 0,
            last_call_first_read: None,
            prm_build_secs,
            pending_sample_budget: None,
            pending_tick_plan: None,
        })
    }

    pub fn install(&self, problem: &Problem, mode: SampleMode) -> Result<Installed<K>, String> {
        self.install_starts(problem, mode, None)
    }
    /// `starts` overrides the start list (e.g. an empty one).
    pub fn install_starts(&self, problem: &Problem, mode: SampleMode, starts: Option<Vec<Vec<f64>>>) -> Result<Installed<K>, String> {
        let space = MonSpace::<K>::new(&self.kit, &self.log, mode)?;
        let goal = MonGoal::<K>::new(&self.kit, &self.log, &problem.goal)?;
        let start_states = match starts {
            None => std::iter::once(&problem.start).chain(problem.extra_starts.iter()).map(|f| self.kit.unflat(f)).collect(),
            Some(l) => l.iter().map(|f| self.kit.unflat(f)).collect(),
        };
        let pd = Arc::new(ProblemDefinition { space: Arc::new(space), start_states, goal: Arc::new(goal) });
        let checker = Arc::new(MonChecker::<K> { eval: WorldEval::new(&self.kit, &problem.world)?, log: self.log.clone() });
        Ok(Installed { problem: problem.clone(), pd, checker })
    }
    /// A new problem definition that shares the space and the goal *objects* (same `Arc`s) of
    /// an earlier one and differs in its start states (and world) - what a user does who asks
    /// for another query towards the same goal.
    pub fn install_sharing(&self, prev: &Installed<K>, problem: &Problem, starts: Option<Vec<Vec<f64>>>) -> Result<Installed<K>, String> {
        let start_states = match starts {
            None => std::iter::once(&problem.start).chain(problem.extra_starts.iter()).map(|f| self.kit.unflat(f)).collect(),
            Some(l) => l.iter().map(|f| self.kit.unflat(f)).collect(),
        };
        let pd = Arc::new(ProblemDefinition { space: prev.pd.space.clone(), start_states, goal: prev.pd.goal.clone() });
        let checker = Arc::new(MonChecker::<K> { eval: WorldEval::new(&self.kit, &problem.world)?, log: self.log.clone() });
        Ok(Installed { problem: problem.clone(), pd, checker })
    }
    /// Re-use an existing problem-definition object (same `Arc`, same space `Arc`) with a fresh
    /// validity checker evaluating `world_of` - what a user does who keeps the problem and
    /// changes the environment.
    pub fn reinstall(&self, prev: &Installed<K>, world_of: &Problem) -> Result<Installed<K>, String> {
        let checker = Arc::new(MonChecker::<K> { eval: WorldEval::new(&self.kit, &world_of.world)?, log: self.log.clone() });
        Ok(Installed { problem: prev.problem.clone(), pd: prev.pd.clone(), checker })
    }

    fn mark(&self, ev: Ev) {
        self.log.borrow_mut().push(ev);
    }
    fn begin_call(&self, name: &'static str) {
        {
            let mut l = self.log.borrow_mut();
            l.n_valid_call = 0;
            l.timeout_ns = None;
            l.late_samples = 0;
            l.worst_late_ns = 0;
            l.samples_in_call = 0;
            l.sample_budget = None;
            l.tick_plan = None;
        }
        self.mark(Ev::Call(name));
        crate::watch::call_begin(name);
    }

    pub fn setup(&mut self, inst: Installed<K>) -> Res {
        self.begin_call("setup");
        let pd = inst.pd.clone();
        let ck: Arc<dyn StateValidityChecker<K::S>> = inst.checker.clone();
        let planner = &mut self.planner;
        let r = guarded(|| match planner {
            AnyPlanner::Rrt(p) => p.setup(pd, ck),
            AnyPlanner::Connect(p) => p.setup(pd, ck),
            AnyPlanner::Star(p) => p.setup(pd, ck),
            AnyPlanner::Prm(p) => p.setup(pd, ck),
        });
        self.checker_problem = Some(inst.problem.clone());
        self.current = Some(inst);
        crate::watch::call_end();
        self.mark(Ev::Ret("setup"));
        match r {
            Ok(()) => Res::Done,
            Err(e) => e,
        }
    }

    /// PRM only.
    pub fn set_problem_definition(&mut self, inst: Installed<K>) -> Res {
        self.begin_call("set_pd");
        let pd = inst.pd.clone();
        let planner = &mut self.planner;
        let r = guarded(|| {
            if let AnyPlanner::Prm(p) = planner {
                p.set_problem_definition(pd)
            }
        });
        // the validity checker stays the one given to setup
        self.current = Some(inst);
        crate::watch::call_end();
        self.mark(Ev::Ret("set_pd"));
        match r {
            Ok(()) => Res::Done,
            Err(e) => e,
        }
    }

    /// PRM only. The build time is the value given to `new` (seconds, virtual when armed).
    pub fn construct_roadmap(&mut self, virtual_clock: bool) -> Res {
        self.begin_call("construct_roadmap");
        self.log.borrow_mut().tick_plan = self.pending_tick_plan.take();
        let reads0 = oxmpl::verif::reads();
        if virtual_clock {
            let now = oxmpl::verif::now_nanos().unwrap_or(0);
            oxmpl::verif::arm(now);
            self.log.borrow_mut().timeout_ns = Some((self.prm_build_secs.max(0.0) * 1e9) as u64);
        }
        self.last_call_v0 = oxmpl::verif::now_nanos().unwrap_or(0);
        let planner = &mut self.planner;
        let r = guarded(|| match planner {
            AnyPlanner::Prm(p) => p.construct_roadmap(),
            _ => Ok(()),
        });
        self.last_call_clock_reads = oxmpl::verif::reads() - reads0;
        self.last_call_first_read = oxmpl::verif::first_read();
        crate::watch::call_end();
        self.mark(Ev::Ret("construct_roadmap"));
        match r {
            Ok(Ok(())) => Res::Done,
            Ok(Err(e)) => Res::Err(ErrKind::from(&e)),
            Err(e) => e,
        }
    }

    /// solve with a timeout of `timeout_ns` (virtual when `virtual_clock`).
    pub fn solve_ns(&mut self, timeout_ns: u64, virtual_clock: bool) -> Res {
        self.begin_call("solve");
        self.log.borrow_mut().sample_budget = self.pending_sample_budget.take();
        self.log.borrow_mut().tick_plan = self.pending_tick_plan.take();
        let reads0 = oxmpl::verif::reads();
        if virtual_clock {
            let now = oxmpl::verif::now_nanos().unwrap_or(0);
            oxmpl::verif::arm(now);
            self.log.borrow_mut().timeout_ns = Some(timeout_ns);
        } else {
            oxmpl::verif::disarm();
        }
        self.last_call_v0 = oxmpl::verif::now_nanos().unwrap_or(0);
        let d = Duration::from_nanos(timeout_ns);
        let planner = &mut self.planner;
        let r = guarded(|| match planner {
            AnyPlanner::Rrt(p) => p.solve(d),
            AnyPlanner::Connect(p) => p.solve(d),
            AnyPlanner::Star(p) => p.solve(d),
            AnyPlanner::Prm(p) => p.solve(d),
        });
        self.last_call_clock_reads = oxmpl::verif::reads() - reads0;
        self.last_call_first_read = oxmpl::verif::first_read();
        crate::watch::call_end();
        self.mark(Ev::Ret("solve"));
        match r {
            Ok(Ok(path)) => Res::Path(path.0.iter().map(|s| K::flat(s)).collect()),
            Ok(Err(e)) => Res::Err(ErrKind::from(&e)),
            Err(e) => e,
        }
    }

    /// Run exactly `n` iterations (iteration-budget cost model: only sampler calls tick, 1 ms
    /// each) unless the planner returns earlier. n = 0 is allowed: `solve(0)` still performs one
    /// iteration (elapsed 0 is not > 0), so use `step()` for single-stepping.
    pub fn solve_iters(&mut self, n: u64) -> Res {
        {
            let mut l = self.log.borrow_mut();
            l.tick_sample = MS;
            l.tick_valid = 0;
        }
        let t = if n == 0 { 0 } else { n * MS - MS / 2 };
        self.pending_sample_budget = Some(n + 256);
        self.solve_ns(t, true)
    }
    /// A clock pacing under which a budget of `n * MS - MS / 2` still admits exactly `n`
    /// iterations (one sampler call each) but the *fraction* of the budget that has elapsed at
    /// iteration k differs from the uniform 1 ms per sample: `front` in (0,1) = the first sample
    /// burns that fraction of the budget; `None` = back-loaded (the first n-1 samples share 20 %
    /// of the budget, the last one crosses it).
    pub fn pace_plan(n: u64, front: Option<f64>) -> Vec<u64> {
        let t = (n * MS - MS / 2) as f64;
        let n = n.max(2);
        match front {
            Some(f) => {
                let t1 = (t * f).floor();
                let rest = ((t - t1) / (n as f64 - 1.5)).ceil() as u64;
                std::iter::once(t1 as u64).chain((1..n).map(|_| rest)).collect()
            }
            None => {
                let small = (0.2 * t / (n as f64 - 1.0)).floor() as u64;
                (0..n - 1).map(|_| small).chain(std::iter::once(t as u64)).collect()
            }
        }
    }
    /// Exactly one iteration: a budget of half a sampler tick, so that the first clock check
    /// (elapsed 0) passes and the second (one sample later) does not - whether the planner
    /// compares with `>` or with `>=`.
    pub fn step(&mut self) -> Res {
        self.solve_iters(1)
    }

    /// Mutates the planner's public parameter fields the way a user can between calls:
    /// extension step, rewiring radius and connection radius are multiplied by `f`.
    pub fn scale_params(&mut self, f: f64) {
        match &mut self.planner {
            AnyPlanner::Rrt(p) => p.max_distance *= f,
            AnyPlanner::Connect(p) => p.max_distance *= f,
            AnyPlanner::Star(p) => {
                p.max_distance *= f;
                p.search_radius *= f;
            }
            AnyPlanner::Prm(p) => p.connection_radius *= f,
        }
        self.params.max_distance *= f;
        self.params.search_radius *= f;
        self.params.connection_radius *= f;
    }

    /// The user changes the public `goal_bias` field (tree planners).
    pub fn set_goal_bias(&mut self, p: f64) {
        match &mut self.planner {
            AnyPlanner::Rrt(pl) => pl.goal_bias = p,
            AnyPlanner::Connect(pl) => pl.goal_bias = p,
            AnyPlanner::Star(pl) => pl.goal_bias = p,
            AnyPlanner::Prm(_) => {}
        }
        self.params.goal_bias = p;
    }

    pub fn snapshot(&self) -> Snap {
        let tn = |s: &K::S, p: Option<usize>, c: f64| TNode { s: K::flat(s), parent: p, cost: c };
        match &self.planner {
            AnyPlanner::Rrt(p) => Snap::Tree(p.verif_tree().iter().map(|(s, p)| tn(s, *p, 0.0)).collect()),
            AnyPlanner::Star(p) => Snap::Tree(p.verif_tree().iter().map(|(s, p, c)| tn(s, *p, *c)).collect()),
            AnyPlanner::Connect(p) => {
                let (a, b) = p.verif_trees();
                Snap::Trees(
                    a.iter().map(|(s, p)| tn(s, *p, 0.0)).collect(),
                    b.iter().map(|(s, p)| tn(s, *p, 0.0)).collect(),
                )
            }
            AnyPlanner::Prm(p) => Snap::Roadmap(p.verif_roadmap().iter().map(|(s, e)| (K::flat(s), e.clone())).collect()),
        }
    }

    pub fn set_script(&self, script: Vec<Vec<f64>>) {
        if let Some(c) = &self.current {
            c.pd.space.set_script(script);
        }
    }
    pub fn space(&self) -> Option<&MonSpace<K>> {
        self.current.as_ref().map(|c| &*c.pd.space)
    }
    pub fn goal(&self) -> Option<&MonGoal<K>> {
        self.current.as_ref().map(|c| &*c.pd.goal)
    }
}

/// Convenience: new planner, install, setup (and construct the PRM roadmap with
/// `prm_samples` samples), then run `iters` iterations. Returns the driver and the result.
pub fn run_once<K: Kit>(kit: &K, problem: &Problem, params: &PParams, iters: u64, prm_samples: u64) -> Result<(Drv<K>, Res), String> {
    oxmpl::verif::arm(0);
    let build_secs = (prm_samples as f64 - 0.5) * 1e-3;
    let mut d = match Drv::new(kit, params, build_secs) {
        Ok(d) => d,
        Err(r) => return Err(format!("constructor failed: {}", r.short())),
    };
    let inst = d.install(problem, SampleMode::PlannerRng)?;
    let r = d.setup(inst);
    if r != Res::Done {
        return Ok((d, r));
    }
    if params.kind == PKind::Prm {
        {
            let mut l = d.log.borrow_mut();
            l.tick_sample = MS;
            l.tick_valid = 0;
        }
        let r = d.construct_roadmap(true);
        if r != Res::Done {
            return Ok((d, r));
        }
    }
    let r = d.solve_iters(iters);
    Ok((d, r))
}
