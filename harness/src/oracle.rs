//! Oracles over returned paths, event logs and snapshots. Every oracle returns a list of
//! (signature, detail) findings; an empty list means "held on this execution".
use crate::drv::{Snap, TNode};
use crate::monitor::{Ev, Rec, WorldEval};
use crate::refm::{comp_convex, dist_tol, ref_bounds_violation};
use crate::spec::{Kit, CK};
use crate::world::{PParams, Problem};
use oxmpl::base::space::StateSpace;

pub type Findings = Vec<(String, String)>;

/// Tolerance on lengths measured with the space's own distance (step limits, edge lengths,
/// speed law): pure rounding, plus the documented SO3 allowances.
/// Largest weighted |coordinate| of the R^n components of the given states: lengths measured
/// between states far from the origin carry rounding proportional to the coordinates, not to
/// the length.
pub fn mag(spec: &crate::spec::Spec, states: &[&[f64]]) -> f64 {
    let mut m = 0.0f64;
    for v in states {
        let mut o = 0;
        for (ci, c) in spec.comps.iter().enumerate() {
            let w = c.kind.width();
            if let CK::R { .. } = c.kind {
                for x in &v[o..o + w] {
                    m = m.max(spec.eff_weight(ci).max(1.0) * x.abs());
                }
            }
            o += w;
        }
    }
    m
}

/// Are two flat states the same configuration up to rounding (1e-9 relative per coordinate;
/// angles compared modulo 2 pi, quaternions up to sign)? Independent of the weights.
pub fn same_up_to_rounding(spec: &crate::spec::Spec, a: &[f64], b: &[f64]) -> bool {
    let mut o = 0;
    for c in &spec.comps {
        let w = c.kind.width();
        let (x, y) = (&a[o..o + w], &b[o..o + w]);
        let ok = match c.kind {
            CK::R { .. } => x.iter().zip(y).all(|(p, q)| (p - q).abs() <= 1e-9 * (1.0 + p.abs().max(q.abs()))),
            CK::So2 { .. } => {
                let d = (x[0] - y[0]).abs() % (2.0 * std::f64::consts::PI);
                d.min(2.0 * std::f64::consts::PI - d) <= 1e-9
            }
            CK::So3 { .. } => {
                let same = x.iter().zip(y).all(|(p, q)| (p - q).abs() <= 1e-9);
                let flipped = x.iter().zip(y).all(|(p, q)| (p + q).abs() <= 1e-9);
                same || flipped
            }
        };
        if !ok {
            return false;
        }
        o += w;
    }
    true
}

pub fn len_tol<K: Kit>(kit: &K, scale: f64) -> f64 {
    let spec = kit.spec();
    let mut t = dist_tol(spec, scale);
    if spec.has_so3() {
        let w = (0..spec.comps.len())
            .filter(|i| matches!(spec.comps[*i].kind, CK::So3 { .. }))
            .map(|i| spec.eff_weight(i))
            .fold(0.0f64, f64::max);
        t += 5e-6 * w;
    }
    t
}

// ------------------------------------------------------------------------------------------
// C01 / C02 / C04 / C05 on a returned path
// ------------------------------------------------------------------------------------------
pub fn path_validity<K: Kit>(kit: &K, eval: &WorldEval<K>, path: &[Vec<f64>]) -> Findings {
    let mut f = vec![];
    for (i, s) in path.iter().enumerate() {
        let st = kit.unflat(s);
        if !eval.valid(&st, s) {
            let which = if i == 0 {
                "first"
            } else if i + 1 == path.len() {
                "last"
            } else {
                "interior"
            };
            f.push((format!("invalid-{which}-state-on-path"), format!("path[{i}] of {} = {:?} is rejected by the validity checker", path.len(), s)));
            if f.len() > 3 {
                break;
            }
        }
    }
    f
}

pub fn path_endpoints<K: Kit>(kit: &K, sp: &K::SP, problem: &Problem, path: &[Vec<f64>]) -> Findings {
    let mut f = vec![];
    if path.is_empty() {
        f.push(("empty-path".into(), "Ok(path) with zero states".into()));
        return f;
    }
    let a: Vec<u64> = path[0].iter().map(|x| x.to_bits()).collect();
    let b: Vec<u64> = problem.start.iter().map(|x| x.to_bits()).collect();
    // (a problem may list several start states; the library plans from the first one, and a
    // planner that supported all of them could begin at any - both satisfy "the start state")
    let is_extra = problem.extra_starts.iter().any(|e| e.iter().map(|x| x.to_bits()).collect::<Vec<u64>>() == a);
    if a != b && !is_extra {
        f.push(("first-state-is-not-start".into(), format!("path[0]={:?} start={:?}", path[0], problem.start)));
    }
    let last = kit.unflat(path.last().unwrap());
    let c = kit.unflat(&problem.goal.centre);
    let d = sp.distance(&last, &c);
    if !(d <= problem.goal.radius) {
        f.push(("last-state-not-in-goal".into(), format!("d(last, goal centre)={d} > radius {}", problem.goal.radius)));
    }
    if let Some((i, lo, hi)) = problem.goal.window {
        let x = path.last().unwrap()[i];
        if !(lo <= x && x <= hi) {
            f.push(("last-state-not-in-goal".into(), format!("coordinate {i} of the last state = {x} outside the goal's window [{lo}, {hi}]")));
        }
    }
    f
}

/// C04. Returns (findings, precondition_held).
pub fn path_bounds(problem: &Problem, goal_samples: &[Vec<f64>], path: &[Vec<f64>]) -> (Findings, bool) {
    let spec = &problem.spec;
    let tol = 1e-9;
    let tol3 = 1e-7;
    if ref_bounds_violation(spec, &problem.start, tol, tol3).is_some() {
        return (vec![], false);
    }
    for g in goal_samples {
        if ref_bounds_violation(spec, g, tol, tol3).is_some() {
            return (vec![], false);
        }
    }
    let mut f = vec![];
    for (i, s) in path.iter().enumerate() {
        if let Some((ci, ex)) = ref_bounds_violation(spec, s, tol, tol3) {
            let kind = &spec.comps[ci].kind;
            let sig = if comp_convex(kind) {
                match kind {
                    CK::R { .. } => "out-of-bounds:box".to_string(),
                    CK::So2 { .. } => "out-of-bounds:so2-convex-interval".to_string(),
                    CK::So3 { .. } => "out-of-bounds:so3-convex-cone".to_string(),
                }
            } else {
                match kind {
                    CK::So2 { .. } => "nonconvex-angular-bounds:so2-span>pi".to_string(),
                    _ => "nonconvex-angular-bounds:so3-cone>pi/2".to_string(),
                }
            };
            f.push((sig, format!("path[{i}]={:?} leaves the bounds of component {ci} ({:?}) by {ex}", s, kind)));
            break;
        }
    }
    (f, true)
}

pub fn path_steps<K: Kit>(kit: &K, sp: &K::SP, params: &PParams, path: &[Vec<f64>]) -> (Findings, f64) {
    let limit = params.step_limit();
    let mut f = vec![];
    let mut worst = f64::NEG_INFINITY;
    let all: Vec<&[f64]> = path.iter().map(|p| p.as_slice()).collect();
    let tol = len_tol(kit, limit.max(4.0 * mag(kit.spec(), &all)));
    for i in 0..path.len().saturating_sub(1) {
        let a = kit.unflat(&path[i]);
        let b = kit.unflat(&path[i + 1]);
        let d = sp.distance(&a, &b);
        worst = worst.max(d - limit);
        if !(d <= limit + tol) {
            f.push(("step-too-long".into(), format!("d(path[{i}],path[{}])={d} > limit {limit} (+tol {tol:e}) for {}", i + 1, params.kind.name())));
            break;
        }
    }
    (f, worst)
}

// ------------------------------------------------------------------------------------------
// Segment-coverage oracle (C03, C15, C18)
// ------------------------------------------------------------------------------------------
/// Index over the accepted validity queries of a log, sorted by distance to a pivot state so
/// that the candidates for one segment can be found without scanning the whole log.
pub struct Accepted<K: Kit> {
    pub states: Vec<K::S>,
    pub flats: Vec<Vec<f64>>,
    pub dp: Vec<f64>,
    pub pivot: K::S,
    /// rejected queries (for oracles that need "the checker said no on this segment"),
    /// sorted by distance to the pivot like the accepted ones
    pub rejected: Vec<K::S>,
    pub rej_dp: Vec<f64>,
    /// accepted queries in log order (duplicates kept) and the log positions of each bit
    /// pattern: a *hint* for `max_gap` (the queries of one motion check are contiguous), never
    /// an assumption - when the hint does not prove coverage the full index is scanned
    pub order: Vec<K::S>,
    pub pos_by_hash: std::collections::HashMap<u64, Vec<u32>>,
}

impl<K: Kit> Accepted<K> {
    pub fn from_log(kit: &K, sp: &K::SP, recs: &[Rec], pivot_flat: &[f64]) -> Self {
        let pivot = kit.unflat(pivot_flat);
        let mut items: Vec<(f64, Vec<f64>)> = vec![];
        let mut rejected: Vec<(f64, Vec<f64>)> = vec![];
        let mut seen = std::collections::HashSet::new();
        let mut seen_rej = std::collections::HashSet::new();
        let mut order: Vec<K::S> = vec![];
        let mut pos_by_hash: std::collections::HashMap<u64, Vec<u32>> = std::collections::HashMap::new();
        for r in recs {
            if let Ev::Valid(f, ok) = &r.ev {
                if *ok {
                    let h = crate::util::hash_f64s(crate::util::FNV0, f);
                    pos_by_hash.entry(h).or_default().push(order.len() as u32);
                    order.push(kit.unflat(f));
                    if seen.insert(h) {
                        let s = kit.unflat(f);
                        items.push((sp.distance(&pivot, &s), f.clone()));
                    }
                } else {
                    let h = crate::util::hash_f64s(crate::util::FNV0, f);
                    if seen_rej.insert(h) {
                        let s = kit.unflat(f);
                        rejected.push((sp.distance(&pivot, &s), f.clone()));
                    }
                }
            }
        }
        items.sort_by(|a, b| a.0.partial_cmp(&b.0).unwrap_or(std::cmp::Ordering::Equal));
        let dp = items.iter().map(|x| x.0).collect();
        let states = items.iter().map(|x| kit.unflat(&x.1)).collect();
        let flats = items.into_iter().map(|x| x.1).collect();
        rejected.sort_by(|a, b| a.0.partial_cmp(&b.0).unwrap_or(std::cmp::Ordering::Equal));
        let rej_dp = rejected.iter().map(|x| x.0).collect();
        let rejected = rejected.iter().map(|x| kit.unflat(&x.1)).collect();
        Accepted { states, flats, dp, pivot, rejected, rej_dp, order, pos_by_hash }
    }

    /// Largest gap (in the space's metric) between accepted queries lying on segment (a,b),
    /// including the gaps a->first and last->b. Also returns the number of on-segment queries.
    pub fn max_gap(&self, kit: &K, sp: &K::SP, a: &K::S, b: &K::S) -> (f64, usize, f64) {
        self.max_gap_impl(kit, sp, a, b, true)
    }
    /// Same verdict, but always scans the complete index so that the reported gap is the true
    /// largest gap (used where the number goes into the evidence).
    pub fn max_gap_full(&self, kit: &K, sp: &K::SP, a: &K::S, b: &K::S) -> (f64, usize, f64) {
        self.max_gap_impl(kit, sp, a, b, false)
    }
    fn max_gap_impl(&self, kit: &K, sp: &K::SP, a: &K::S, b: &K::S, shortcuts: bool) -> (f64, usize, f64) {
        let l = sp.distance(a, b);
        let on_tol = 1e-9 * (1.0 + l) + if kit.spec().has_so3() { 1e-7 } else { 0.0 };
        // a segment no longer than the resolution is covered by its end points alone
        let lvs = sp.get_longest_valid_segment_length();
        if shortcuts && l <= lvs {
            return (l, 0, l);
        }
        // fast path: the queries of one motion check are contiguous in the log, next to the
        // query for its end point. Look for a log position of an end point whose neighbour lies
        // on the segment and examine the window around it. Only a hint: if it does not prove
        // coverage, the complete index is scanned below.
        if shortcuts && lvs > 0.0 && l.is_finite() {
            let on = |s: &K::S| -> Option<f64> {
                let d1 = sp.distance(a, s);
                if d1 <= l + on_tol && d1 + sp.distance(s, b) <= l + on_tol {
                    Some(d1.min(l))
                } else {
                    None
                }
            };
            let w = ((3.0 * (l / (0.1 * lvs)).ceil()) as usize).min(6000) + 8;
            let mut tried = 0;
            'outer: for end in [b, a] {
                let h = crate::util::hash_f64s(crate::util::FNV0, &K::flat(end));
                let Some(ps) = self.pos_by_hash.get(&h) else { continue };
                for &p in ps.iter() {
                    let p = p as usize;
                    let interior = |q: &K::S| on(q).map(|x| x > on_tol && x < l - on_tol).unwrap_or(false);
                    let near = (p > 0 && interior(&self.order[p - 1])) || (p + 1 < self.order.len() && interior(&self.order[p + 1]));
                    if !near {
                        continue;
                    }
                    tried += 1;
                    let lo = p.saturating_sub(w);
                    let hi = (p + w + 1).min(self.order.len());
                    let mut pos: Vec<f64> = self.order[lo..hi].iter().filter_map(|s| on(s)).collect();
                    pos.sort_by(|x, y| x.partial_cmp(y).unwrap_or(std::cmp::Ordering::Equal));
                    let mut gap = 0.0f64;
                    let mut prev = 0.0f64;
                    for q in &pos {
                        gap = gap.max(q - prev);
                        prev = *q;
                    }
                    gap = gap.max(l - prev);
                    if gap <= lvs {
                        return (gap, pos.len(), l);
                    }
                    if tried >= 4 {
                        break 'outer;
                    }
                }
            }
        }
        let da = sp.distance(&self.pivot, a);
        let lo = da - l - on_tol - 1e-9;
        let hi = da + l + on_tol + 1e-9;
        let i0 = self.dp.partition_point(|x| *x < lo);
        let i1 = self.dp.partition_point(|x| *x <= hi);
        let mut pos: Vec<f64> = vec![];
        for i in i0..i1 {
            let s = &self.states[i];
            let d1 = sp.distance(a, s);
            if d1 > l + on_tol {
                continue;
            }
            let d2 = sp.distance(s, b);
            if d1 + d2 <= l + on_tol {
                pos.push(d1.min(l));
            }
        }
        pos.sort_by(|x, y| x.partial_cmp(y).unwrap_or(std::cmp::Ordering::Equal));
        let n = pos.len();
        let mut gap = 0.0f64;
        let mut prev = 0.0f64;
        for p in &pos {
            gap = gap.max(p - prev);
            prev = *p;
        }
        gap = gap.max(l - prev);
        (gap, n, l)
    }

    /// Is there a rejected query lying on segment (a,b)?
    pub fn rejected_on(&self, kit: &K, sp: &K::SP, a: &K::S, b: &K::S) -> bool {
        let l = sp.distance(a, b);
        let on_tol = 1e-9 * (1.0 + l) + if kit.spec().has_so3() { 1e-7 } else { 0.0 };
        let da = sp.distance(&self.pivot, a);
        let lo = da - l - on_tol - 1e-9;
        let hi = da + l + on_tol + 1e-9;
        let i0 = self.rej_dp.partition_point(|x| *x < lo);
        let i1 = self.rej_dp.partition_point(|x| *x <= hi);
        self.rejected[i0..i1].iter().any(|s| {
            let d1 = sp.distance(a, s);
            d1 <= l + on_tol && d1 + sp.distance(s, b) <= l + on_tol
        })
    }
}

/// Dense re-check of one segment with the pure validity function: the longest run of invalid
/// samples (spacing lvs/64) in metric length. Returns (longest invalid run, samples used).
pub fn dense_invalid_run<K: Kit>(kit: &K, sp: &K::SP, eval: &WorldEval<K>, a: &K::S, b: &K::S, lvs: f64) -> (f64, usize) {
    let l = sp.distance(a, b);
    if !(l > 0.0) || !(lvs > 0.0) {
        return (0.0, 0);
    }
    let n = ((64.0 * l / lvs).ceil() as usize).clamp(1, 20_000);
    let spacing = l / n as f64;
    let mut out = a.clone();
    let mut run = 0usize;
    let mut worst = 0usize;
    for i in 0..=n {
        let t = i as f64 / n as f64;
        sp.interpolate(a, b, t, &mut out);
        let f = K::flat(&out);
        if eval.valid(&out, &f) {
            run = 0;
        } else {
            run += 1;
            worst = worst.max(run);
        }
    }
    let _ = kit;
    (if worst > 0 { (worst - 1) as f64 * spacing } else { 0.0 }, n + 1)
}

/// C03 on a path: coverage + dense re-check per segment.
pub fn path_coverage<K: Kit>(kit: &K, sp: &K::SP, eval: &WorldEval<K>, acc: &Accepted<K>, path: &[Vec<f64>], worst_gap_rel: &mut f64) -> Findings {
    let lvs = sp.get_longest_valid_segment_length();
    let mut f = vec![];
    for i in 0..path.len().saturating_sub(1) {
        let a = kit.unflat(&path[i]);
        let b = kit.unflat(&path[i + 1]);
        let (gap, n, l) = acc.max_gap_full(kit, sp, &a, &b);
        let tol = len_tol(kit, l.max(4.0 * mag(kit.spec(), &[&path[i], &path[i + 1]]))) + 1e-9 * (1.0 + l);
        if lvs > 0.0 && l > 0.0 {
            *worst_gap_rel = worst_gap_rel.max(gap / lvs);
        }
        if !(gap <= lvs + tol) {
            f.push(("segment-coverage-gap".into(), format!("segment {i}->{} (length {l}) has a gap of {gap} > lvs {lvs} between accepted validity queries ({n} on-segment queries)", i + 1)));
        }
        // both directions: interpolate(a,b,t) and interpolate(b,a,1-t) are the same configuration
        // but may be different representations (+pi / -pi, q / -q); a user checker that depends
        // on the representation must not turn that into an alarm
        let (run_ab, _) = dense_invalid_run(kit, sp, eval, &a, &b, lvs);
        let run = if run_ab > 0.0 {
            // ... unless the two directions are different *motions* (two arcs between antipodal
            // end points): then the arc the path itself takes is the one that counts
            let same_motion = [0.25, 0.5, 0.75].iter().all(|t| {
                let (mut x, mut y) = (a.clone(), a.clone());
                sp.interpolate(&a, &b, *t, &mut x);
                sp.interpolate(&b, &a, 1.0 - *t, &mut y);
                same_up_to_rounding(kit.spec(), &K::flat(&x), &K::flat(&y)) || sp.distance(&x, &y) <= tol
            });
            if same_motion { run_ab.min(dense_invalid_run(kit, sp, eval, &b, &a, lvs).0) } else { run_ab }
        } else {
            0.0
        };
        if lvs > 0.0 && run >= lvs + 2.0 * lvs / 64.0 + tol {
            f.push(("invalid-stretch-on-segment".into(), format!("segment {i}->{} (length {l}) crosses an invalid stretch of length >= {run} (lvs {lvs})", i + 1)));
        }
        if f.len() > 2 {
            break;
        }
    }
    f
}

// ------------------------------------------------------------------------------------------
// tree structure (C15)
// ------------------------------------------------------------------------------------------
/// Structural well-formedness of one tree: parents in range, single root at index 0 with the
/// expected state, acyclic (bounded walk). Returns findings.
pub fn tree_structure(tree: &[TNode], expected_root: Option<&[f64]>, name: &str) -> Findings {
    let mut f = vec![];
    if tree.is_empty() {
        return f;
    }
    let n = tree.len();
    let mut roots = 0;
    for (i, nd) in tree.iter().enumerate() {
        match nd.parent {
            None => {
                roots += 1;
                if i != 0 {
                    f.push((format!("{name}:second-root"), format!("node {i} has no parent")));
                }
            }
            Some(p) => {
                if p >= n {
                    f.push((format!("{name}:parent-out-of-range"), format!("node {i} parent {p} >= {n}")));
                    return f;
                }
                if p == i {
                    f.push((format!("{name}:self-parent"), format!("node {i} is its own parent")));
                }
            }
        }
    }
    if roots == 0 {
        f.push((format!("{name}:no-root"), "no node without parent".into()));
    }
    if let Some(r) = expected_root {
        let a: Vec<u64> = tree[0].s.iter().map(|x| x.to_bits()).collect();
        let b: Vec<u64> = r.iter().map(|x| x.to_bits()).collect();
        if a != b || tree[0].parent.is_some() {
            f.push((format!("{name}:root-mismatch"), format!("node 0 = {:?} (parent {:?}), expected root {:?}", tree[0].s, tree[0].parent, r)));
        }
    }
    // acyclicity: every walk to the root terminates within n steps
    let mut depth_ok = vec![false; n];
    for i in 0..n {
        let mut cur = i;
        let mut steps = 0;
        let mut ok = false;
        while steps <= n {
            if depth_ok[cur] {
                ok = true;
                break;
            }
            match tree[cur].parent {
                None => {
                    ok = true;
                    break;
                }
                Some(p) => cur = p,
            }
            steps += 1;
        }
        if !ok {
            f.push((format!("{name}:cycle"), format!("parent chain from node {i} does not reach a root within {n} steps")));
            return f;
        }
        depth_ok[i] = true;
    }
    f
}

pub fn snap_trees(s: &Snap) -> Vec<(&'static str, &Vec<TNode>)> {
    match s {
        Snap::Tree(t) => vec![("tree", t)],
        Snap::Trees(a, b) => vec![("start_tree", a), ("goal_tree", b)],
        Snap::Roadmap(_) => vec![],
    }
}
