//! Space specifications, the flat (Vec<f64>) canonical view of the six state types and the
//! `Kit` trait that lets every workload / oracle be written once and monomorphised per space.
use crate::util::{fj, fjs, parse_f, parse_fs};
use oxmpl::base::space::{
    AnyStateSpace, CompoundStateSpace, RealVectorStateSpace, SE2StateSpace, SE3StateSpace,
    SO2StateSpace, SO3StateSpace, StateSpace,
};
use oxmpl::base::state::{
    CompoundState, RealVectorState, SE2State, SE3State, SO2State, SO3State, State,
};
use serde_json::{json, Value};
use std::any::Any;

#[derive(Clone, Debug, PartialEq)]
pub enum CK {
    R { n: usize, bounds: Option<Vec<(f64, f64)>> },
    So2 { bounds: Option<(f64, f64)> },
    So3 { bounds: Option<([f64; 4], f64)> },
}

#[derive(Clone, Debug, PartialEq)]
pub struct Comp {
    pub kind: CK,
    pub weight: f64,
    /// longest-valid-segment fraction (None = library default 0.05)
    pub frac: Option<f64>,
}

#[derive(Clone, Copy, Debug, PartialEq, Eq, Hash)]
pub enum Wrap {
    R,
    So2,
    So3,
    Compound,
    Se2,
    Se3,
}
pub const ALL_WRAPS: [Wrap; 6] = [Wrap::R, Wrap::So2, Wrap::So3, Wrap::Compound, Wrap::Se2, Wrap::Se3];

impl Wrap {
    pub fn name(&self) -> &'static str {
        match self {
            Wrap::R => "Rn",
            Wrap::So2 => "SO2",
            Wrap::So3 => "SO3",
            Wrap::Compound => "Compound",
            Wrap::Se2 => "SE2",
            Wrap::Se3 => "SE3",
        }
    }
    pub fn parse(s: &str) -> Option<Wrap> {
        ALL_WRAPS.iter().copied().find(|w| w.name() == s)
    }
}

#[derive(Clone, Debug, PartialEq)]
pub struct Spec {
    pub wrap: Wrap,
    pub comps: Vec<Comp>,
}

impl CK {
    pub fn width(&self) -> usize {
        match self {
            CK::R { n, .. } => *n,
            CK::So2 { .. } => 1,
            CK::So3 { .. } => 4,
        }
    }
    pub fn extent(&self) -> f64 {
        match self {
            CK::R { bounds, .. } => match bounds {
                None => 1.0,
                Some(b) => {
                    if b.iter().any(|(l, h)| !l.is_finite() || !h.is_finite()) {
                        1.0
                    } else {
                        b.iter().map(|(l, h)| (h - l) * (h - l)).sum::<f64>().sqrt()
                    }
                }
            },
            CK::So2 { .. } => std::f64::consts::PI,
            CK::So3 { .. } => 0.5 * std::f64::consts::PI,
        }
    }
    /// Metric diameter of the (bounded) component, used only for sizing workloads.
    pub fn diameter(&self) -> f64 {
        match self {
            CK::R { .. } => self.extent(),
            CK::So2 { bounds } => match bounds {
                None => std::f64::consts::PI,
                Some((l, h)) => (h - l).min(std::f64::consts::PI),
            },
            CK::So3 { bounds } => match bounds {
                None => std::f64::consts::PI,
                Some((_, r)) => (2.0 * r).min(std::f64::consts::PI),
            },
        }
    }
}

impl Spec {
    pub fn width(&self) -> usize {
        self.comps.iter().map(|c| c.kind.width()).sum()
    }
    pub fn offsets(&self) -> Vec<usize> {
        let mut o = vec![];
        let mut acc = 0;
        for c in &self.comps {
            o.push(acc);
            acc += c.kind.width();
        }
        o
    }
    /// R^n / SO2 / SO3 used directly (no weights involved).
    pub fn is_plain(&self) -> bool {
        matches!(self.wrap, Wrap::R | Wrap::So2 | Wrap::So3)
    }
    /// Effective metric weight of component `i`.
    pub fn eff_weight(&self, i: usize) -> f64 {
        if self.is_plain() {
            1.0
        } else {
            self.comps[i].weight.abs()
        }
    }
    pub fn max_weight(&self) -> f64 {
        (0..self.comps.len()).map(|i| self.eff_weight(i)).fold(0.0f64, f64::max)
    }
    pub fn has_so3(&self) -> bool {
        self.comps.iter().any(|c| matches!(c.kind, CK::So3 { .. }))
    }
    pub fn diameter(&self) -> f64 {
        (0..self.comps.len()).map(|i| (self.eff_weight(i) * self.comps[i].kind.diameter()).powi(2)).sum::<f64>().sqrt()
    }
    pub fn plain(wrap: Wrap, kind: CK, frac: Option<f64>) -> Spec {
        Spec { wrap, comps: vec![Comp { kind, weight: 1.0, frac }] }
    }
    pub fn describe(&self) -> String {
        let cs: Vec<String> = self
            .comps
            .iter()
            .map(|c| {
                let k = match &c.kind {
                    CK::R { n, bounds } => format!("R{}{:?}", n, bounds.as_ref().map(|b| b.len())),
                    CK::So2 { bounds } => format!("SO2{:?}", bounds),
                    CK::So3 { bounds } => format!("SO3{:?}", bounds.as_ref().map(|b| b.1)),
                };
                format!("{k}*{}", c.weight)
            })
            .collect();
        format!("{}[{}]", self.wrap.name(), cs.join(","))
    }

    pub fn to_json(&self) -> Value {
        let comps: Vec<Value> = self
            .comps
            .iter()
            .map(|c| {
                let k = match &c.kind {
                    CK::R { n, bounds } => json!({"type":"R","n":n,"bounds":bounds.as_ref().map(|b| b.iter().map(|(l,h)| json!([fj(*l),fj(*h)])).collect::<Vec<_>>())}),
                    CK::So2 { bounds } => json!({"type":"SO2","bounds":bounds.map(|(l,h)| json!([fj(l),fj(h)]))}),
                    CK::So3 { bounds } => json!({"type":"SO3","bounds":bounds.map(|(c,r)| json!({"centre":fjs(&c),"radius":fj(r)}))}),
                };
                json!({"kind":k,"weight":fj(c.weight),"frac":c.frac.map(fj)})
            })
            .collect();
        json!({"wrap": self.wrap.name(), "comps": comps})
    }
    pub fn from_json(v: &Value) -> Spec {
        let wrap = Wrap::parse(v["wrap"].as_str().unwrap()).unwrap();
        let comps = v["comps"]
            .as_array()
            .unwrap()
            .iter()
            .map(|c| {
                let k = &c["kind"];
                let kind = match k["type"].as_str().unwrap() {
                    "R" => CK::R {
                        n: k["n"].as_u64().unwrap() as usize,
                        bounds: k["bounds"].as_array().map(|a| {
                            a.iter().map(|p| (parse_f(&p[0]), parse_f(&p[1]))).collect()
                        }),
                    },
                    "SO2" => CK::So2 {
                        bounds: k["bounds"].as_array().map(|p| (parse_f(&p[0]), parse_f(&p[1]))),
                    },
                    _ => CK::So3 {
                        bounds: if k["bounds"].is_null() {
                            None
                        } else {
                            let c = parse_fs(&k["bounds"]["centre"]);
                            Some(([c[0], c[1], c[2], c[3]], parse_f(&k["bounds"]["radius"])))
                        },
                    },
                };
                Comp {
                    kind,
                    weight: parse_f(&c["weight"]),
                    frac: if c["frac"].is_null() { None } else { Some(parse_f(&c["frac"])) },
                }
            })
            .collect();
        Spec { wrap, comps }
    }
}

// ------------------------------------------------------------------------------------------
// component-level construction
// ------------------------------------------------------------------------------------------
pub fn build_r(n: usize, bounds: &Option<Vec<(f64, f64)>>, frac: Option<f64>) -> Result<RealVectorStateSpace, String> {
    let mut sp = RealVectorStateSpace::new(n, bounds.clone()).map_err(|e| format!("{e:?}"))?;
    if let Some(f) = frac {
        sp.set_longest_valid_segment_fraction(f);
    }
    Ok(sp)
}
pub fn build_so2(bounds: &Option<(f64, f64)>, frac: Option<f64>) -> Result<SO2StateSpace, String> {
    let mut sp = SO2StateSpace::new(*bounds).map_err(|e| format!("{e:?}"))?;
    if let Some(f) = frac {
        sp.set_longest_valid_segment_fraction(f);
    }
    Ok(sp)
}
pub fn build_so3(bounds: &Option<([f64; 4], f64)>, frac: Option<f64>) -> Result<SO3StateSpace, String> {
    let b = bounds.map(|(c, r)| (SO3State { x: c[0], y: c[1], z: c[2], w: c[3] }, r));
    let mut sp = SO3StateSpace::new(b).map_err(|e| format!("{e:?}"))?;
    if let Some(f) = frac {
        sp.set_longest_valid_segment_fraction(f);
    }
    Ok(sp)
}
pub fn build_comp(c: &Comp) -> Result<Box<dyn AnyStateSpace>, String> {
    Ok(match &c.kind {
        CK::R { n, bounds } => Box::new(build_r(*n, bounds, c.frac)?),
        CK::So2 { bounds } => Box::new(build_so2(bounds, c.frac)?),
        CK::So3 { bounds } => Box::new(build_so3(bounds, c.frac)?),
    })
}
pub fn build_compound(spec: &Spec) -> Result<CompoundStateSpace, String> {
    let mut subs = vec![];
    let mut ws = vec![];
    for c in &spec.comps {
        subs.push(build_comp(c)?);
        ws.push(c.weight);
    }
    Ok(CompoundStateSpace::new(subs, ws))
}

pub fn comp_state(kind: &CK, v: &[f64]) -> Box<dyn State> {
    match kind {
        CK::R { .. } => Box::new(RealVectorState { values: v.to_vec() }),
        CK::So2 { .. } => Box::new(SO2State { value: v[0] }),
        CK::So3 { .. } => Box::new(SO3State { x: v[0], y: v[1], z: v[2], w: v[3] }),
    }
}
pub fn flatten_dyn(s: &dyn State, out: &mut Vec<f64>) {
    let a: &dyn Any = s.as_any();
    if let Some(r) = a.downcast_ref::<RealVectorState>() {
        out.extend_from_slice(&r.values);
    } else if let Some(r) = a.downcast_ref::<SO2State>() {
        out.push(r.value);
    } else if let Some(r) = a.downcast_ref::<SO3State>() {
        out.extend_from_slice(&[r.x, r.y, r.z, r.w]);
    } else if let Some(r) = a.downcast_ref::<CompoundState>() {
        for c in &r.components {
            flatten_dyn(&**c, out);
        }
    } else if let Some(r) = a.downcast_ref::<SE2State>() {
        for c in &r.0.components {
            flatten_dyn(&**c, out);
        }
    } else if let Some(r) = a.downcast_ref::<SE3State>() {
        for c in &r.0.components {
            flatten_dyn(&**c, out);
        }
    } else {
        panic!("verif harness: unknown state type {s:?}");
    }
}
pub fn compound_state(spec: &Spec, v: &[f64]) -> CompoundState {
    let mut comps = vec![];
    let mut o = 0;
    for c in &spec.comps {
        let w = c.kind.width();
        comps.push(comp_state(&c.kind, &v[o..o + w]));
        o += w;
    }
    CompoundState { components: comps }
}

// ------------------------------------------------------------------------------------------
// Kit: one impl per space family
// ------------------------------------------------------------------------------------------
pub trait Kit: Clone + Send + Sync + 'static {
    type S: State + Clone;
    type SP: StateSpace<StateType = Self::S> + Clone + 'static;
    fn new(spec: Spec) -> Self;
    fn spec(&self) -> &Spec;
    fn build(&self) -> Result<Self::SP, String>;
    fn flat(s: &Self::S) -> Vec<f64> {
        let mut v = vec![];
        flatten_dyn(s, &mut v);
        v
    }
    fn unflat(&self, v: &[f64]) -> Self::S;
}

#[derive(Clone)]
pub struct RKit(pub Spec);
#[derive(Clone)]
pub struct So2Kit(pub Spec);
#[derive(Clone)]
pub struct So3Kit(pub Spec);
#[derive(Clone)]
pub struct CompoundKit(pub Spec);
#[derive(Clone)]
pub struct Se2Kit(pub Spec);
#[derive(Clone)]
pub struct Se3Kit(pub Spec);

impl Kit for RKit {
    type S = RealVectorState;
    type SP = RealVectorStateSpace;
    fn new(spec: Spec) -> Self {
        RKit(spec)
    }
    fn spec(&self) -> &Spec {
        &self.0
    }
    fn build(&self) -> Result<Self::SP, String> {
        match &self.0.comps[0].kind {
            CK::R { n, bounds } => build_r(*n, bounds, self.0.comps[0].frac),
            _ => Err("RKit needs an R component".into()),
        }
    }
    fn unflat(&self, v: &[f64]) -> Self::S {
        RealVectorState { values: v.to_vec() }
    }
}
impl Kit for So2Kit {
    type S = SO2State;
    type SP = SO2StateSpace;
    fn new(spec: Spec) -> Self {
        So2Kit(spec)
    }
    fn spec(&self) -> &Spec {
        &self.0
    }
    fn build(&self) -> Result<Self::SP, String> {
        match &self.0.comps[0].kind {
            CK::So2 { bounds } => build_so2(bounds, self.0.comps[0].frac),
            _ => Err("So2Kit needs an SO2 component".into()),
        }
    }
    fn unflat(&self, v: &[f64]) -> Self::S {
        SO2State { value: v[0] }
    }
}
impl Kit for So3Kit {
    type S = SO3State;
    type SP = SO3StateSpace;
    fn new(spec: Spec) -> Self {
        So3Kit(spec)
    }
    fn spec(&self) -> &Spec {
        &self.0
    }
    fn build(&self) -> Result<Self::SP, String> {
        match &self.0.comps[0].kind {
            CK::So3 { bounds } => build_so3(bounds, self.0.comps[0].frac),
            _ => Err("So3Kit needs an SO3 component".into()),
        }
    }
    fn unflat(&self, v: &[f64]) -> Self::S {
        SO3State { x: v[0], y: v[1], z: v[2], w: v[3] }
    }
}
impl Kit for CompoundKit {
    type S = CompoundState;
    type SP = CompoundStateSpace;
    fn new(spec: Spec) -> Self {
        CompoundKit(spec)
    }
    fn spec(&self) -> &Spec {
        &self.0
    }
    fn build(&self) -> Result<Self::SP, String> {
        build_compound(&self.0)
    }
    fn unflat(&self, v: &[f64]) -> Self::S {
        compound_state(&self.0, v)
    }
}
impl Kit for Se2Kit {
    type S = SE2State;
    type SP = SE2StateSpace;
    fn new(spec: Spec) -> Self {
        Se2Kit(spec)
    }
    fn spec(&self) -> &Spec {
        &self.0
    }
    fn build(&self) -> Result<Self::SP, String> {
        let s = &self.0;
        // Use the public constructor whenever it can express the spec; otherwise assemble the
        // same compound directly (custom resolution fractions).
        if s.comps.iter().all(|c| c.frac.is_none()) && s.comps[0].weight == 1.0 {
            let b = match (&s.comps[0].kind, &s.comps[1].kind) {
                (CK::R { bounds: Some(rb), .. }, CK::So2 { bounds: Some(ab) }) => {
                    Some(vec![rb[0], rb[1], *ab])
                }
                (CK::R { bounds: None, .. }, CK::So2 { bounds: None }) => None,
                _ => return Ok(SE2StateSpace(build_compound(s)?)),
            };
            SE2StateSpace::new(s.comps[1].weight, b).map_err(|e| format!("{e:?}"))
        } else {
            Ok(SE2StateSpace(build_compound(s)?))
        }
    }
    fn unflat(&self, v: &[f64]) -> Self::S {
        SE2State(compound_state(&self.0, v))
    }
}
impl Kit for Se3Kit {
    type S = SE3State;
    type SP = SE3StateSpace;
    fn new(spec: Spec) -> Self {
        Se3Kit(spec)
    }
    fn spec(&self) -> &Spec {
        &self.0
    }
    fn build(&self) -> Result<Self::SP, String> {
        let s = &self.0;
        if s.comps.iter().all(|c| c.frac.is_none()) && s.comps[0].weight == 1.0 {
            let b = match (&s.comps[0].kind, &s.comps[1].kind) {
                (CK::R { bounds: Some(rb), .. }, CK::So3 { bounds: None }) => {
                    Some(vec![rb[0], rb[1], rb[2]])
                }
                (CK::R { bounds: None, .. }, CK::So3 { bounds: None }) => None,
                _ => return Ok(SE3StateSpace(build_compound(s)?)),
            };
            SE3StateSpace::new(s.comps[1].weight, b).map_err(|e| format!("{e:?}"))
        } else {
            Ok(SE3StateSpace(build_compound(s)?))
        }
    }
    fn unflat(&self, v: &[f64]) -> Self::S {
        SE3State(compound_state(&self.0, v))
    }
}

/// Monomorphise `$body` for the kit matching `$spec.wrap`; inside, `$k` is the kit value and
/// `$K` its type.
#[macro_export]
macro_rules! with_kit {
    ($spec:expr, $K:ident, $k:ident => $body:expr) => {
        match $spec.wrap {
            $crate::spec::Wrap::R => {
                type $K = $crate::spec::RKit;
                let $k = <$K as $crate::spec::Kit>::new($spec.clone());
                $body
            }
            $crate::spec::Wrap::So2 => {
                type $K = $crate::spec::So2Kit;
                let $k = <$K as $crate::spec::Kit>::new($spec.clone());
                $body
            }
            $crate::spec::Wrap::So3 => {
                type $K = $crate::spec::So3Kit;
                let $k = <$K as $crate::spec::Kit>::new($spec.clone());
                $body
            }
            $crate::spec::Wrap::Compound => {
                type $K = $crate::spec::CompoundKit;
                let $k = <$K as $crate::spec::Kit>::new($spec.clone());
                $body
            }
            $crate::spec::Wrap::Se2 => {
                type $K = $crate::spec::Se2Kit;
                let $k = <$K as $crate::spec::Kit>::new($spec.clone());
                $body
            }
            $crate::spec::Wrap::Se3 => {
                type $K = $crate::spec::Se3Kit;
                let $k = <$K as $crate::spec::Kit>::new($spec.clone());
                $body
            }
        }
    };
}
