//! oxverif: runtime-monitoring harness for the oxmpl properties C01..C20.
#![allow(clippy::type_complexity, clippy::too_many_arguments, clippy::needless_range_loop)]
mod drv;
mod monitor;
mod oracle;
mod props;
mod py;
mod refm;
mod spec;
mod util;
mod watch;
mod world;

use util::Tier;

fn main() {
    let args: Vec<String> = std::env::args().collect();
    if args.len() < 3 {
        eprintln!("usage: oxverif run <Cxx> <quick|thorough> | oxverif replay <file>");
        std::process::exit(3);
    }
    drv::install_panic_hook();
    if args[1] == "miri-smoke" {
        // oxverif miri-smoke <c08|c13> <shard> <nshards>   (run under `cargo +nightly miri run`)
        let shard = args.get(3).and_then(|s| s.parse().ok()).unwrap_or(0);
        let n = args.get(4).and_then(|s| s.parse().ok()).unwrap_or(1);
        std::process::exit(props::miri::smoke(&args[2], shard, n));
    }
    util::silence_stdout();
    let seed: u64 = std::env::var("VERIF_SEED").ok().and_then(|s| s.parse::<i64>().ok()).map(|x| x as u64).unwrap_or(0);
    match args[1].as_str() {
        "run" => {
            let tier = match args.get(3).map(|s| s.as_str()) {
                Some("thorough") => Tier::Thorough,
                _ => Tier::Quick,
            };
            let code = props::run(&args[2], tier, seed);
            std::process::exit(code);
        }
        "pygen" => {
            // oxverif pygen <out.json> <quick|thorough>
            let tier = if args.get(3).map(|s| s.as_str()) == Some("thorough") { Tier::Thorough } else { Tier::Quick };
            std::process::exit(py::pygen(&args[2], tier, seed));
        }
        "pyverify" => {
            // oxverif pyverify <C19|C20> <scenarios.json> <results.json> <quick|thorough>
            let tier = if args.get(5).map(|s| s.as_str()) == Some("thorough") { Tier::Thorough } else { Tier::Quick };
            std::process::exit(py::pyverify(&args[2], &args[3], &args[4], tier, seed));
        }
        "replay" => {
            let code = props::replay(&args[2]);
            std::process::exit(code);
        }
        other => {
            eprintln!("unknown command {other}");
            std::process::exit(3);
        }
    }
}
