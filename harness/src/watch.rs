//! Last-resort progress monitor for planner calls that stop making callbacks.
//!
//! Every monitor callback (sampler, distance, interpolate, validity, goal) bumps a per-thread
//! event counter. While a worker is inside a public planner call, a watchdog thread compares
//! the counter once a second; if it has not moved while the worker *burned more than 10 s of
//! its own CPU time* (read from /proc, so the verdict does not depend on machine load), the
//! call is spinning inside library code without talking to the user's objects - e.g. a path
//! extraction that walks a parent cycle forever. That is reported as a violation
//! (`call-did-not-return`) with the case that was running, and the process exits at once,
//! because such a loop typically also allocates without bound.
use serde_json::{json, Value};
use std::cell::RefCell;
use std::sync::atomic::{AtomicBool, AtomicU64, Ordering};
use std::sync::{Arc, Mutex, OnceLock};

pub struct Slot {
    tid: String,
    events: AtomicU64,
    in_call: AtomicBool,
    call: Mutex<&'static str>,
    case: Mutex<Option<Value>>,
}

static SLOTS: OnceLock<Mutex<Vec<Arc<Slot>>>> = OnceLock::new();
static META: OnceLock<(String, String, u64, &'static str)> = OnceLock::new();

thread_local! {
    static MY: RefCell<Option<Arc<Slot>>> = const { RefCell::new(None) };
}

fn my() -> Arc<Slot> {
    MY.with(|m| {
        let mut m = m.borrow_mut();
        if m.is_none() {
            let tid = std::fs::read_link("/proc/thread-self").ok().and_then(|p| p.file_name().map(|f| f.to_string_lossy().to_string())).unwrap_or_default();
            let s = Arc::new(Slot { tid, events: AtomicU64::new(0), in_call: AtomicBool::new(false), call: Mutex::new(""), case: Mutex::new(None) });
            SLOTS.get_or_init(|| Mutex::new(vec![])).lock().unwrap().push(s.clone());
            *m = Some(s);
        }
        m.as_ref().unwrap().clone()
    })
}

#[inline]
pub fn event() {
    MY.with(|m| {
        if let Some(s) = m.borrow().as_ref() {
            s.events.fetch_add(1, Ordering::Relaxed);
        }
    });
}
pub fn set_case(v: Value) {
    *my().case.lock().unwrap() = Some(v);
}
pub fn call_begin(name: &'static str) {
    let s = my();
    *s.call.lock().unwrap() = name;
    s.events.fetch_add(1, Ordering::Relaxed);
    s.in_call.store(true, Ordering::SeqCst);
}
pub fn call_end() {
    let s = my();
    s.in_call.store(false, Ordering::SeqCst);
}

fn cpu_ticks(tid: &str) -> Option<u64> {
    let t = std::fs::read_to_string(format!("/proc/self/task/{tid}/stat")).ok()?;
    // fields after the closing paren of comm: state is field 3; utime 14, stime 15
    let rest = &t[t.rfind(')')? + 2..];
    let f: Vec<&str> = rest.split_whitespace().collect();
    let ut: u64 = f.get(11)?.parse().ok()?;
    let st: u64 = f.get(12)?.parse().ok()?;
    Some(ut + st)
}

fn rss_bytes() -> u64 {
    std::fs::read_to_string("/proc/self/statm").ok().and_then(|t| t.split_whitespace().nth(1).and_then(|x| x.parse::<u64>().ok())).map(|p| p * 4096).unwrap_or(0)
}

/// Start the watchdog (once per process).
pub fn start(property: &str, tier: &str, seed: u64, level: &'static str) {
    if META.set((property.to_string(), tier.to_string(), seed, level)).is_err() {
        return;
    }
    std::thread::spawn(|| {
        // per slot: (events seen at last change, cpu ticks at last change)
        let mut last: std::collections::HashMap<String, (u64, u64)> = std::collections::HashMap::new();
        loop {
            std::thread::sleep(std::time::Duration::from_millis(1000));
            let slots: Vec<Arc<Slot>> = match SLOTS.get() {
                Some(m) => m.lock().unwrap().clone(),
                None => continue,
            };
            for s in slots {
                if !s.in_call.load(Ordering::SeqCst) {
                    last.remove(&s.tid);
                    continue;
                }
                let ev = s.events.load(Ordering::Relaxed);
                let cpu = cpu_ticks(&s.tid).unwrap_or(0);
                match last.get(&s.tid) {
                    Some((e0, c0)) if *e0 == ev => {
                        let stalled = cpu.saturating_sub(*c0);
                        // 100 ticks per second
                        if stalled >= 1000 || (stalled >= 200 && rss_bytes() > 24u64 << 30) {
                            fire(&s, stalled as f64 / 100.0);
                        }
                    }
                    _ => {
                        last.insert(s.tid.clone(), (ev, cpu));
                    }
                }
            }
        }
    });
}

fn fire(s: &Slot, stalled_cpu_s: f64) -> ! {
    let (prop, tier, seed, _level) = META.get().cloned().unwrap_or_default();
    let call = *s.call.lock().unwrap();
    let case = s.case.lock().unwrap().clone().unwrap_or(json!(null));
    let planner = case["params"]["kind"].as_str().unwrap_or("?").to_string();
    let sig = format!("call-did-not-return:{planner}:{call}");
    let detail = format!("{call} has been running for {stalled_cpu_s:.0} s of CPU time without a single callback to the space, goal or validity checker (process RSS {} MB): the planner is looping in its own code", rss_bytes() >> 20);
    let root = crate::util::out_root();
    let rdir = root.join("replays").join(&prop);
    let _ = std::fs::create_dir_all(&rdir);
    let path = rdir.join(format!("{tier}_{seed}_call-did-not-return_1.json"));
    let mut replay = case.clone();
    if replay.is_object() {
        replay["property"] = json!(prop);
    }
    let body = json!({"property":prop,"signature":sig,"detail":detail,"tier":tier,"seed":seed,"replay":replay});
    let _ = std::fs::write(&path, serde_json::to_string_pretty(&body).unwrap_or_default());
    crate::util::say(&format!("VIOLATION property={prop} replay={}", path.display()));
    crate::util::say(&format!("  signature={sig} detail={detail}"));
    let ev = json!({
        "property_id": prop, "tier": tier, "seed": seed, "level": "other",
        "coverage": {"explanation": format!("the run was cut short by the progress monitor: {detail}"), "violating_case": case},
        "assumptions": ["a planner call that burns 10 s of CPU without any callback is not going to return"],
        "wall_s": 0.0, "violations": 1, "verdict": "violated",
    });
    let _ = std::fs::create_dir_all(root.join("evidence"));
    let _ = std::fs::write(root.join("evidence").join(format!("{prop}.json")), serde_json::to_string_pretty(&ev).unwrap_or_default());
    crate::util::say(&format!("{prop} {tier} seed={seed} => VIOLATED (call did not return)"));
    std::process::exit(1);
}
