//! C11 Sampling, enforcing and checking bounds agree.
use crate::drv::{guarded, Res};
use crate::monitor::BudgetTrip;
use crate::refm::{canonical_violation, ref_bounds_violation, ref_comp_dist};
use crate::spec::{Comp, Kit, Spec, Wrap, CK};
use crate::util::{fjs, hash_f64s, par_shards, ulp_down, ulp_up, Batch, Ctx, Sm, Tier, FNV0};
use crate::with_kit;
use crate::world::quat_at;
use oxmpl::base::error::StateSamplingError;
use oxmpl::base::space::{AnyStateSpace, StateSpace};
use rand::{RngCore, SeedableRng};
use rand_chacha::ChaCha8Rng;
use serde_json::json;
use std::f64::consts::PI;

/// Generator with a draw budget: a sampler that never terminates trips it.
pub struct BudgetRng {
    pub inner: ChaCha8Rng,
    pub draws: u64,
    pub budget: u64,
}
impl BudgetRng {
    pub fn new(seed: u64, budget: u64) -> Self {
        BudgetRng { inner: ChaCha8Rng::seed_from_u64(seed), draws: 0, budget }
    }
    fn tick(&mut self) {
        self.draws += 1;
        if self.draws > self.budget {
            std::panic::panic_any(BudgetTrip);
        }
    }
}
impl RngCore for BudgetRng {
    fn next_u32(&mut self) -> u32 {
        self.tick();
        self.inner.next_u32()
    }
    fn next_u64(&mut self) -> u64 {
        self.tick();
        self.inner.next_u64()
    }
    fn fill_bytes(&mut self, dst: &mut [u8]) {
        self.tick();
        self.inner.fill_bytes(dst)
    }
}

fn r_bound_choices() -> Vec<(f64, f64)> {
    vec![
        (-1.0, 1.0),
        (0.0, 1e-300),
        (-1e308, 1e308),
        (5.0, ulp_up(5.0)),
        (f64::NEG_INFINITY, 3.0),
        (f64::NEG_INFINITY, f64::INFINITY),
        (-10.0, 10.0),
        (1e6, 1e6 + 1.0),
        (-0.0, 0.5),
        (2.0, f64::INFINITY),
    ]
}
fn so2_bound_choices(r: &mut Sm) -> Vec<Option<(f64, f64)>> {
    let mut v = vec![
        None,
        Some((-PI, PI)),
        Some((0.0, PI)),
        Some((-PI, 0.0)),
        Some((3.0, PI)),
        Some((-PI, -3.0)),
        Some((-4.0, 4.0)),
        Some((-1.0, 1.0)),
        Some((0.5, 0.5 + 1e-9)),
        Some((-10.0, 10.0)),
        Some((2.9, 3.5)),
        Some((-3.5, -2.9)),
        Some((-PI / 2.0, PI / 2.0)),
        Some((1.0, 3.0)),
        // intervals that touch [-pi, pi] in a single point or not at all: the constructor
        // must reject them; if it does not, sampling is exercised below
        Some((PI, 4.0)),
        Some((-4.0, -PI)),
        Some((4.0, 5.0)),
        Some((ulp_down(PI), PI)),
        Some((-PI, ulp_up(-PI))),
        // a few ulps wide, away from the seam: any re-computation of the sampled angle shows
        Some((0.3, ulp_up(ulp_up(ulp_up(0.3))))),
        Some((ulp_down(ulp_down(-0.1)), -0.1)),
        Some((1.1, ulp_up(1.1))),
        Some((-2.7, ulp_up(ulp_up(-2.7)))),
    ];
    for _ in 0..4 {
        let a = r.range(-PI, PI);
        let b = r.range(-PI, PI);
        if (a - b).abs() > 1e-3 {
            v.push(Some((a.min(b), a.max(b))));
        }
    }
    v
}
fn so3_bound_choices(r: &mut Sm) -> Vec<Option<([f64; 4], f64)>> {
    let h = std::f64::consts::FRAC_1_SQRT_2;
    let centres = [[0.0, 0.0, 0.0, 1.0], [1.0, 0.0, 0.0, 0.0], [0.0, h, 0.0, -h], r.quat(), r.quat()];
    // (cones below 0.1 rad are only enforced / checked, never sampled: rejection cost)
    let radii = [0.0, 1e-12, 1e-3, 0.01, 0.03, 0.05, 0.1, 0.5, 1.0, PI / 2.0, 2.0, 3.0, PI, 10.0];
    let mut v = vec![None];
    for c in centres {
        for rad in radii {
            v.push(Some((c, rad)));
        }
    }
    v
}

pub fn settings(r: &mut Sm, thorough: bool) -> Vec<Spec> {
    let mut v = vec![];
    let rb = r_bound_choices();
    for b in &rb {
        v.push(Spec::plain(Wrap::R, CK::R { n: 1, bounds: Some(vec![*b]) }, None));
    }
    v.push(Spec::plain(Wrap::R, CK::R { n: 2, bounds: None }, None));
    for _ in 0..(if thorough { 30 } else { 8 }) {
        let n = 2 + r.below(2);
        let b: Vec<(f64, f64)> = (0..n).map(|_| *r.pick(&rb)).collect();
        v.push(Spec::plain(Wrap::R, CK::R { n, bounds: Some(b) }, None));
    }
    // sides of equal length at different offsets
    v.push(Spec::plain(Wrap::R, CK::R { n: 3, bounds: Some(vec![(0.0, 10.0), (2.0, 12.0), (-7.0, 3.0)]) }, None));
    // beyond 8 / 16 coordinates (block-wise loops have their own tails); finite bounds so that
    // sampling is exercised too
    let fin: Vec<(f64, f64)> = rb.iter().copied().filter(|b| b.0.is_finite() && b.1.is_finite() && (b.1 - b.0).is_finite()).collect();
    for n in [8usize, 9, 17] {
        let b: Vec<(f64, f64)> = (0..n).map(|_| *r.pick(&fin)).collect();
        v.push(Spec::plain(Wrap::R, CK::R { n, bounds: Some(b) }, None));
    }
    let s2 = so2_bound_choices(r);
    for b in &s2 {
        v.push(Spec::plain(Wrap::So2, CK::So2 { bounds: *b }, None));
    }
    let s3 = so3_bound_choices(r);
    for b in &s3 {
        v.push(Spec::plain(Wrap::So3, CK::So3 { bounds: *b }, None));
    }
    // SE2 through its public constructor, SE3 likewise (rotation unbounded), plus SE3 with a cone
    for _ in 0..(if thorough { 40 } else { 10 }) {
        let good_r: Vec<(f64, f64)> = rb.iter().copied().filter(|b| b.0.is_finite() && b.1.is_finite() && (b.1 - b.0).is_finite()).collect();
        let pickr = |r: &mut Sm| if r.bool(0.8) { *r.pick(&good_r) } else { *r.pick(&rb) };
        let ab = r.pick(&s2).unwrap_or((-PI, PI));
        v.push(Spec {
            wrap: Wrap::Se2,
            comps: vec![
                Comp { kind: CK::R { n: 2, bounds: Some(vec![pickr(r), pickr(r)]) }, weight: 1.0, frac: None },
                Comp { kind: CK::So2 { bounds: Some(ab) }, weight: *r.pick(&[0.0, 0.5, 1.0]), frac: None },
            ],
        });
        let cone = if r.bool(0.5) { None } else { *r.pick(&s3) };
        v.push(Spec {
            wrap: Wrap::Se3,
            comps: vec![
                Comp { kind: CK::R { n: 3, bounds: Some(vec![pickr(r), pickr(r), pickr(r)]) }, weight: 1.0, frac: None },
                Comp { kind: CK::So3 { bounds: cone }, weight: *r.pick(&[0.0, 0.5, 1.0]), frac: None },
            ],
        });
    }
    for _ in 0..(if thorough { 60 } else { 16 }) {
        let n = 1 + r.below(3);
        let comps = (0..n)
            .map(|_| {
                let kind = match r.below(3) {
                    0 => {
                        let m = 1 + r.below(2);
                        CK::R { n: m, bounds: Some((0..m).map(|_| *r.pick(&rb)).collect()) }
                    }
                    1 => CK::So2 { bounds: *r.pick(&s2) },
                    _ => CK::So3 { bounds: *r.pick(&s3) },
                };
                Comp { kind, weight: *r.pick(&[0.0, 1e-3, 1.0, 50.0]), frac: None }
            })
            .collect();
        v.push(Spec { wrap: Wrap::Compound, comps });
    }
    v
}

/// Hostile states for one component.
fn comp_probes(r: &mut Sm, kind: &CK) -> Vec<Vec<f64>> {
    match kind {
        CK::R { n, bounds } => {
            let mut out = vec![];
            let b: Vec<(f64, f64)> = bounds.clone().unwrap_or_else(|| vec![(f64::NEG_INFINITY, f64::INFINITY); *n]);
            let fin = |x: f64, alt: f64| if x.is_finite() { x } else { alt };
            out.push(b.iter().map(|p| fin(p.0, -7.0)).collect());
            out.push(b.iter().map(|p| fin(p.1, 7.0)).collect());
            out.push(b.iter().map(|p| ulp_down(fin(p.0, -7.0))).collect());
            out.push(b.iter().map(|p| ulp_up(fin(p.1, 7.0))).collect());
            out.push(b.iter().map(|p| fin(p.0, -7.0) - 1.0).collect());
            out.push(b.iter().map(|p| fin(p.1, 7.0) + 1.0).collect());
            out.push(b.iter().map(|p| fin(p.0, -1.0) / 2.0 + fin(p.1, 1.0) / 2.0).collect());
            // exactly one coordinate outside (first, middle, last), the others inside
            if *n >= 2 {
                let mid: Vec<f64> = b.iter().map(|p| fin(p.0, -1.0) / 2.0 + fin(p.1, 1.0) / 2.0).collect();
                for idx in [0, *n / 2, *n - 1] {
                    if b[idx].1.is_finite() {
                        let mut p = mid.clone();
                        p[idx] = b[idx].1 + (1.0 + b[idx].1.abs()) * 0.5;
                        out.push(p);
                    }
                    if b[idx].0.is_finite() {
                        let mut p = mid.clone();
                        p[idx] = b[idx].0 - (1.0 + b[idx].0.abs()) * 0.5;
                        out.push(p);
                    }
                }
            }
            out.push(vec![1e308; *n]);
            out.push(vec![-1e308; *n]);
            out.push(vec![0.0; *n]);
            for _ in 0..4 {
                out.push(b.iter().map(|p| r.range(fin(p.0, -7.0).max(-1e9), fin(p.1, 7.0).min(1e9))).collect());
            }
            out
        }
        CK::So2 { bounds } => {
            let (lo, hi) = bounds.unwrap_or((-PI, PI));
            let (lo, hi) = (lo.max(-PI), hi.min(PI));
            let mut v = super::lattice::so2_lattice(r, 6, true);
            v.extend_from_slice(&[lo, hi, ulp_down(lo), ulp_up(hi), ulp_up(lo), ulp_down(hi), (lo + hi) / 2.0, lo + 2.0 * PI, hi - 2.0 * PI, lo - 1e-9, hi + 1e-9]);
            v.into_iter().map(|x| vec![x]).collect()
        }
        CK::So3 { bounds } => {
            let mut v: Vec<Vec<f64>> = super::lattice::so3_lattice(r, 6).into_iter().map(|q| q.to_vec()).collect();
            v.push(vec![0.0, 0.0, 0.0, 0.0]);
            v.push(vec![0.0, 0.0, 3.0, 4.0]);
            v.push(vec![1e-5, 0.0, 0.0, 1e-5]);
            v.push(vec![1e3, -1e3, 1e3, 1e3]);
            if let Some((c, rad)) = bounds {
                let rad = rad.min(PI);
                v.push(c.to_vec());
                v.push(c.iter().map(|x| -x).collect());
                for a in [rad, rad - 1e-9, rad + 1e-9, rad * 0.5, rad + 0.3, PI, 0.5 * (rad + PI), rad * 1.5, rad * 2.0, rad * 3.0, rad + 0.01, rad + 0.03, 0.06, 0.0632] {
                    if a >= 0.0 && a <= PI {
                        v.push(quat_at(r, c, a).to_vec());
                    }
                }
            }
            v
        }
    }
}

fn probes(r: &mut Sm, spec: &Spec, n: usize) -> Vec<Vec<f64>> {
    let per: Vec<Vec<Vec<f64>>> = spec.comps.iter().map(|c| comp_probes(r, &c.kind)).collect();
    let longest = per.iter().map(|p| p.len()).max().unwrap_or(0);
    let mut out = vec![];
    for i in 0..longest {
        let mut v = vec![];
        for p in &per {
            v.extend_from_slice(&p[i % p.len()]);
        }
        out.push(v);
    }
    while out.len() < n.max(longest) && per.len() > 1 {
        let mut v = vec![];
        for p in &per {
            let pick: &Vec<f64> = r.pick(&p[..]);
            v.extend_from_slice(pick);
        }
        out.push(v);
    }
    out
}

fn comp_tol(kind: &CK, x: &[f64]) -> f64 {
    match kind {
        CK::R { .. } => 1e-12 * (1.0 + x.iter().fold(0.0f64, |m, y| m.max(y.abs()))),
        CK::So2 { .. } => 1e-12,
        CK::So3 { .. } => 1e-7,
    }
}
/// Component-wise "same state up to rounding" test.
fn moved(spec: &Spec, a: &[f64], b: &[f64]) -> Option<(usize, f64)> {
    let mut o = 0;
    for (ci, c) in spec.comps.iter().enumerate() {
        let w = c.kind.width();
        let d = ref_comp_dist(&c.kind, &a[o..o + w], &b[o..o + w]);
        if !(d <= comp_tol(&c.kind, &a[o..o + w])) {
            return Some((ci, d));
        }
        o += w;
    }
    None
}

fn sampling_expectation(spec: &Spec) -> (bool, bool, f64) {
    // (must_error, skip_because_slow, expected generator draws per sample)
    let mut must_err = false;
    let mut slow = false;
    let mut cost = 1.0f64;
    for c in &spec.comps {
        match &c.kind {
            CK::R { bounds, .. } => match bounds {
                None => must_err = true,
                Some(b) => {
                    if b.iter().any(|p| !p.0.is_finite() || !p.1.is_finite() || !(p.1 - p.0).is_finite()) {
                        must_err = true;
                    }
                }
            },
            CK::So3 { bounds: Some((_, rad)) } => {
                // (cones of 0.04 .. 0.1 rad are sampled too, a handful of times: implementations
                // like to special-case "narrow" cones)
                if *rad >= 1e-9 && *rad < 0.04 {
                    slow = true;
                }
                let rad = rad.min(PI);
                if rad >= 0.04 {
                    cost += 4.0 / (0.308 * (rad - rad.sin()) / PI);
                }
            }
            CK::So3 { bounds: None } => cost += 13.0,
            _ => {}
        }
    }
    (must_err, slow, cost)
}

fn check_spec<K: Kit>(ctx: &Ctx, kit: &K, seed: u64, n_samples: usize) {
    let spec = kit.spec().clone();
    let name = spec.wrap.name();
    let sp = match guarded(|| kit.build()) {
        Ok(Ok(s)) => s,
        Ok(Err(_)) => {
            // the constructor rejects this setting (C12 judges whether it should): nothing to check
            ctx.count("settings_rejected_by_constructor", 1);
            return;
        }
        Err(e) => {
            ctx.violate(&format!("constructor-panicked:{name}"), e.short(), json!({"spec":spec.to_json()}));
            return;
        }
    };
    let mut r = Sm::derive(seed, &[11, hash_f64s(FNV0, &[spec.width() as f64])]);
    let mut b = Batch::default();
    b.count(&format!("settings[{name}]"), 1);
    let rep = |sig: &str, detail: String, st: &[f64], res: &[f64]| {
        ctx.violate(&format!("{sig}:{name}"), detail, json!({"kind":"bounds","spec":spec.to_json(),"state":fjs(st),"result":fjs(res)}));
    };

    // ---- enforce / satisfies over hostile states
    for p in probes(&mut r, &spec, 80) {
        b.evaluations += 1;
        let s0 = kit.unflat(&p);
        let res = guarded(|| {
            let before = sp.satisfies_bounds(&s0);
            let mut s1 = s0.clone();
            sp.enforce_bounds(&mut s1);
            let after = sp.satisfies_bounds(&s1);
            let mut s2 = s1.clone();
            sp.enforce_bounds(&mut s2);
            // erased interface must agree bit for bit
            let mut sd = s0.clone();
            sp.enforce_bounds_dyn(&mut sd);
            let dyn_sat = sp.satisfies_bounds_dyn(&s0);
            (before, K::flat(&s1), after, K::flat(&s2), K::flat(&sd), dyn_sat)
        });
        let (before, f1, after, f2, fd, dyn_sat) = match res {
            Ok(x) => x,
            Err(Res::Panic { msg, loc }) => {
                rep("bounds-op-panicked", format!("{loc}: {msg}"), &p, &[]);
                continue;
            }
            Err(_) => continue,
        };
        b.count("enforce_calls", 1);
        if dyn_sat != before || fd.iter().zip(f1.iter()).any(|(x, y)| x.to_bits() != y.to_bits()) {
            rep("dyn-mismatch", format!("erased enforce/satisfies differ: {fd:?} / {dyn_sat}"), &p, &f1);
        }
        if !after {
            rep("enforced-state-rejected", format!("enforce_bounds({p:?}) = {f1:?} but satisfies_bounds says false"), &p, &f1);
        }
        if let Some(why) = canonical_violation(&spec, &f1, 1e-9) {
            rep("enforced-state-not-canonical", why, &p, &f1);
        } else if let Some((ci, ex)) = crate::refm::ref_bounds_violation_opt(&spec, &f1, 1e-9, 2.5e-7, true) {
            rep("enforced-state-out-of-bounds", format!("component {ci} outside by {ex}"), &p, &f1);
        }
        if let Some((ci, d)) = moved(&spec, &f1, &f2) {
            rep("enforce-not-idempotent", format!("second enforce moved component {ci} by {d}: {f2:?}"), &p, &f1);
        }
        let canonical_in = canonical_violation(&spec, &p, 1e-12).is_none();
        if before && canonical_in {
            b.count("already_satisfying_inputs", 1);
            if let Some((ci, d)) = moved(&spec, &p, &f1) {
                rep("enforce-moved-satisfying-state", format!("component {ci} moved by {d}"), &p, &f1);
            }
        } else {
            b.count("states_needing_enforcement", 1);
            b.distinct.insert(hash_f64s(hash_f64s(FNV0, &[spec.width() as f64, 1.0]), &p));
        }
        if b.samples.is_empty() && !before {
            b.sample(json!({"spec":spec.describe(),"state":fjs(&p),"enforce_bounds":fjs(&f1),"satisfies_after":after}));
        }
    }

    // ---- sampling
    let (must_err, slow, cost) = sampling_expectation(&spec);
    let n_samples = n_samples.min((3e7 / cost) as usize).max(20);
    if slow {
        b.count("sampling_skipped_tiny_cone", 1);
    } else {
        let mut rng = BudgetRng::new(seed ^ 0x5151, 40_000_000);
        let mut rng2 = BudgetRng::new(seed ^ 0x5151, 40_000_000);
        for i in 0..n_samples {
            b.evaluations += 1;
            rng.draws = 0;
            rng2.draws = 0;
            let res = guarded(|| sp.sample_uniform(&mut rng));
            match res {
                Err(Res::Panic { msg, loc }) => {
                    rep("sample-panicked", format!("{loc}: {msg}"), &[], &[]);
                    break;
                }
                Err(Res::Budget) => {
                    ctx.inconclusive(format!("sampler exceeded the draw budget on {}", spec.describe()));
                    break;
                }
                Err(_) => break,
                Ok(Err(e)) => {
                    b.count("sampling_errors", 1);
                    let ok = must_err && matches!(e, StateSamplingError::UnboundedDimension { .. });
                    if !ok {
                        rep("unexpected-sampling-error", format!("{e:?}"), &[], &[]);
                    }
                    if i > 3 {
                        break;
                    }
                }
                Ok(Ok(s)) => {
                    b.count("samples", 1);
                    let f = K::flat(&s);
                    if must_err {
                        rep("sampled-unbounded-space", "Ok(sample) although a dimension is unbounded".into(), &[], &f);
                        break;
                    }
                    let sat = sp.satisfies_bounds(&s);
                    if !sat {
                        rep("sample-rejected-by-satisfies-bounds", format!("sample {f:?}"), &[], &f);
                    }
                    if let Some((ci, ex)) = ref_bounds_violation(&spec, &f, 1e-9, 2.5e-7) {
                        rep("sample-out-of-bounds", format!("component {ci} outside by {ex}"), &[], &f);
                    }
                    if let Some(why) = canonical_violation(&spec, &f, 1e-9) {
                        rep("sample-not-canonical", why, &[], &f);
                    }
                    b.distinct.insert(hash_f64s(hash_f64s(FNV0, &[spec.width() as f64, 2.0]), &f));
                    // erased interface, same generator state => same bits
                    if i < 20 {
                        if let Ok(Ok(sd)) = guarded(|| sp.sample_uniform_dyn(&mut rng2)) {
                            let mut fdv = vec![];
                            crate::spec::flatten_dyn(&*sd, &mut fdv);
                            if fdv.iter().zip(f.iter()).any(|(x, y)| x.to_bits() != y.to_bits()) {
                                rep("dyn-mismatch", format!("sample_uniform_dyn gave {fdv:?}"), &[], &f);
                            }
                        }
                    }
                }
            }
        }
    }
    ctx.merge(b);
}

pub fn run(tier: Tier, seed: u64) -> i32 {
    let ctx = Ctx::new("C11", tier, seed, "exploration");
    let mut r = Sm::derive(seed, &[11]);
    let specs = settings(&mut r, tier == Tier::Thorough);
    let n_samples = tier.pick(2_000, 200_000);
    par_shards(specs.len(), crate::util::n_threads(), |i| {
        let spec = &specs[i];
        with_kit!(spec, K, kit => check_spec::<K>(&ctx, &kit, seed.wrapping_add(i as u64 * 31337), n_samples));
    });
    for w in crate::spec::ALL_WRAPS {
        ctx.require(&format!("settings[{}]", w.name()));
    }
    for k in ["samples", "sampling_errors", "states_needing_enforcement", "already_satisfying_inputs"] {
        ctx.require(k);
    }
    ctx.finish(
        "cases = enforce_bounds / satisfies_bounds calls on hostile states (far outside, on and 1 ulp around the boundary, non-canonical angles, zero / non-unit quaternions) and sample_uniform calls, per constructible bound setting; distinct+non-trivial = distinct states that needed enforcement plus distinct samples drawn",
        &[
            "idempotence and 'unchanged' are judged per component up to 1e-12 (relative for R^n) / 1e-7 for quaternions, not bitwise",
            "independent bounds test with 1e-9 rounding allowance (2.5e-7 for SO3 cones: the library tolerates 1e-7 and its acos-based angle carries up to 4e-8 of noise)",
            "SO3 cones with radius in [1e-9, 0.04) are not sampled (rejection sampling cost ~ radius^-3), those in [0.04, 0.1) only 20 times; a sampler exceeding 4e7 draws is inconclusive",
            "NaN / infinite state components are outside the explored domain",
        ],
        json!({"settings": specs.len(), "samples_per_setting": n_samples}),
    )
}
