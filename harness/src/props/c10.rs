//! C10 Interpolation traces the shortest path at constant speed.
use super::c09::bounded_view;
use super::lattice::{space_settings, state_lattice};
use crate::oracle::len_tol;
use crate::refm::{canonical_violation, ref_comp_dist};
use crate::spec::{Kit, Spec, CK};
use crate::util::{fj, fjs, fnv, hash_f64s, par_shards, Batch, Ctx, Sm, Tier, FNV0};
use crate::with_kit;
use oxmpl::base::space::{AnyStateSpace, StateSpace};
use serde_json::json;
use std::f64::consts::PI;

/// Two shortest paths exist when an angular component is (numerically) antipodal.
fn near_antipodal(spec: &Spec, a: &[f64], b: &[f64]) -> bool {
    let mut o = 0;
    for c in &spec.comps {
        let w = c.kind.width();
        match c.kind {
            CK::So2 { .. } | CK::So3 { .. } => {
                if ref_comp_dist(&c.kind, &a[o..o + w], &b[o..o + w]) >= PI - 1e-6 {
                    return true;
                }
            }
            _ => {}
        }
        o += w;
    }
    false
}

fn coord_scale(spec: &Spec, a: &[f64], b: &[f64]) -> f64 {
    let mut s = 0.0f64;
    let mut o = 0;
    for (ci, c) in spec.comps.iter().enumerate() {
        let w = c.kind.width();
        if !matches!(c.kind, CK::So3 { .. }) {
            for i in 0..w {
                s = s.max(spec.eff_weight(ci) * a[o + i].abs().max(b[o + i].abs()));
            }
        }
        o += w;
    }
    s
}

fn check_pair<K: Kit>(ctx: &Ctx, b: &mut Batch, kit: &K, sp: &K::SP, spec: &Spec, fa: &[f64], fb: &[f64], ts: &[f64], want_sample: bool) {
    let name = spec.wrap.name();
    let (a, bb) = (kit.unflat(fa), kit.unflat(fb));
    let l = sp.distance(&a, &bb);
    let scale = l.max(4.0 * coord_scale(spec, fa, fb));
    let tol = len_tol(kit, scale);
    let anti = near_antipodal(spec, fa, fb);
    // the output state's prior content must not matter: start it from an unrelated state
    let scratch = kit.unflat(&crate::world::rand_state(&mut crate::util::Sm::new(fa.len() as u64 ^ fb[0].to_bits()), &super::c09::bounded_view(spec)));
    let mut out = scratch.clone();
    let mut rev = scratch.clone();
    let mut dynout = scratch.clone();
    for &t in ts {
        b.evaluations += 1;
        out = scratch.clone();
        sp.interpolate(&a, &bb, t, &mut out);
        let fo = K::flat(&out);
        let rep = |sig: &str, detail: String| {
            ctx.violate(
                &format!("{sig}:{name}"),
                detail,
                json!({"kind":"interpolate","spec":spec.to_json(),"a":fjs(fa),"b":fjs(fb),"t":fj(t),"result":fjs(&fo)}),
            );
        };
        if let Some(why) = canonical_violation(spec, &fo, 1e-12) {
            rep("non-canonical-result", why);
            continue;
        }
        let da = sp.distance(&a, &out);
        let db = sp.distance(&out, &bb);
        let e1 = (da - t * l).abs();
        let e2 = (db - (1.0 - t) * l).abs();
        b.max(&format!("speed_error_over_tol[{name}]"), e1.max(e2) / tol);
        if spec.is_plain() && !matches!(spec.comps[0].kind, CK::R { .. }) {
            b.max(&format!("speed_error_abs[{name}]"), e1.max(e2));
        }
        if t == 0.0 && !(da <= tol) {
            rep("t0-is-not-from", format!("d(a, I(a,b,0))={da}"));
        } else if t == 1.0 && !(db <= tol) {
            rep("t1-is-not-to", format!("d(b, I(a,b,1))={db}"));
        } else if !(e1 <= tol) {
            rep("speed-from", format!("d(a,I_t)={da} expected t*d(a,b)={} (d(a,b)={l}, tol {tol:e})", t * l));
        } else if !(e2 <= tol) {
            rep("speed-to", format!("d(I_t,b)={db} expected (1-t)*d(a,b)={} (d(a,b)={l}, tol {tol:e})", (1.0 - t) * l));
        }
        // a component of weight 0 is invisible to the metric, but interpolation still has to
        // carry it from `from` to `to`: at t = 0 / t = 1 it must hold the end point's value
        if (t == 0.0 || t == 1.0) && !spec.is_plain() {
            let target = if t == 0.0 { fa } else { fb };
            let mut o = 0;
            for (ci, c) in spec.comps.iter().enumerate() {
                let w = c.kind.width();
                if spec.eff_weight(ci) == 0.0 {
                    b.count("zero_weight_endpoint_checks", 1);
                    let (x, y, xa, xb) = (&fo[o..o + w], &target[o..o + w], &fa[o..o + w], &fb[o..o + w]);
                    let same = match c.kind {
                        CK::R { .. } => (0..w).all(|i| (x[i] - y[i]).abs() <= 1e-9 * (1.0 + xa[i].abs() + xb[i].abs())),
                        CK::So2 { .. } => {
                            let d = (x[0] - y[0]).abs() % (2.0 * std::f64::consts::PI);
                            d.min(2.0 * std::f64::consts::PI - d) <= 1e-9 * (1.0 + xa[0].abs() + xb[0].abs())
                        }
                        CK::So3 { .. } => (0..4).all(|i| (x[i] - y[i]).abs() <= 1e-7) || (0..4).all(|i| (x[i] + y[i]).abs() <= 1e-7),
                    };
                    if !same {
                        rep("zero-weight-component-not-carried", format!("component {ci} (weight 0) of I(a,b,{t}) is {:?}, the end point has {:?}", x, y));
                    }
                }
                o += w;
            }
        }
        // exactly antipodal end points have two shortest paths, but the implementation breaks the
        // tie the same way in both directions; only when rounding makes 1-t inexact near the
        // antipode is the comparison skipped
        let _ = anti;
        {
            sp.interpolate(&bb, &a, 1.0 - t, &mut rev);
            let dr = sp.distance(&out, &rev);
            b.max(&format!("reversal_error_over_tol[{name}]"), dr / (2.0 * tol));
            b.count("reversal_checks", 1);
            if !(dr <= 2.0 * tol) {
                rep("reversal", format!("d(I(a,b,t), I(b,a,1-t))={dr} (tol {:e})", 2.0 * tol));
            }
        }
        if anti {
            b.count("antipodal_pairs_speed_only", 1);
        }
        // erased interface: identical bits
        sp.interpolate_dyn(&a, &bb, t, &mut dynout);
        let fd = K::flat(&dynout);
        if fd.iter().zip(fo.iter()).any(|(x, y)| x.to_bits() != y.to_bits()) {
            rep("dyn-mismatch", format!("interpolate_dyn gave {fd:?}"));
        }
        if l > 0.0 && t == 0.25 {
            b.distinct.insert(fnv(hash_f64s(hash_f64s(hash_f64s(FNV0, &[spec.width() as f64]), fa), fb), 0));
        }
        if want_sample && t == 0.25 {
            b.sample(json!({"spec":spec.describe(),"a":fjs(fa),"b":fjs(fb),"t":t,"I(a,b,t)":fjs(&fo),"d(a,b)":l,"d(a,I_t)":da,"d(I_t,b)":db}));
        }
    }
}

fn check_spec<K: Kit>(ctx: &Ctx, kit: &K, seed: u64, n_lattice: usize, n_random: usize) {
    let spec = kit.spec().clone();
    let sp = match kit.build() {
        Ok(s) => s,
        Err(e) => {
            ctx.inconclusive(format!("cannot build {}: {e}", spec.describe()));
            return;
        }
    };
    let mut r = Sm::derive(seed, &[10, spec.width() as u64, spec.comps.len() as u64]);
    let lat = state_lattice(&mut r, &spec, n_lattice, true);
    let mut b = Batch::default();
    // (0.003 / 0.01: a short way along a long arc)
    let base_ts = [0.0, 1e-9, 0.003, 0.01, 0.1, 0.25, 0.5, 0.75, 0.9, 1.0 - 1e-9, 1.0];
    for i in 0..lat.len() {
        for j in 0..lat.len() {
            let mut ts = base_ts.to_vec();
            ts.push(r.f());
            check_pair(ctx, &mut b, kit, &sp, &spec, &lat[i], &lat[j], &ts, false);
        }
    }
    b.count("lattice_pairs", (lat.len() * lat.len()) as u64);
    let bv = bounded_view(&spec);
    for k in 0..n_random {
        let fa = crate::world::rand_state(&mut r, &bv);
        let fb = if k % 4 == 0 { lat[r.below(lat.len())].clone() } else { crate::world::rand_state(&mut r, &bv) };
        let ts = [0.0, r.f(), r.f(), 0.25, 1.0];
        check_pair(ctx, &mut b, kit, &sp, &spec, &fa, &fb, &ts, k == 0);
    }
    b.count("random_pairs", n_random as u64);
    b.count(&format!("settings[{}]", spec.wrap.name()), 1);
    ctx.merge(b);
}

pub fn run(tier: Tier, seed: u64) -> i32 {
    let ctx = Ctx::new("C10", tier, seed, "exploration");
    let mut r = Sm::derive(seed, &[10]);
    let settings = space_settings(&mut r, tier == Tier::Thorough);
    let n_lat = tier.pick(60, 150);
    let n_rand = tier.pick(20_000, 1_000_000);
    par_shards(settings.len(), crate::util::n_threads(), |i| {
        let spec = &settings[i];
        with_kit!(spec, K, kit => check_spec::<K>(&ctx, &kit, seed.wrapping_add(i as u64 * 104729), n_lat, n_rand));
    });
    for w in crate::spec::ALL_WRAPS {
        ctx.require(&format!("settings[{}]", w.name()));
    }
    ctx.require("reversal_checks");
    ctx.require("antipodal_pairs_speed_only");
    ctx.finish(
        "cases = (a, b, t) interpolation calls: all ordered lattice pairs x 10 values of t, plus seeded random pairs; distinct+non-trivial = new (space width, a, b) bit pattern with d(a,b) > 0 (each such pair is exercised at >= 5 values of t)",
        &[
            "speed-law tolerance: rounding (1e-12 + 8 eps * scale) plus 5e-6 per unit weight for SO3 (normalised-LERP branch above dot 0.9995 deviates by <= 1.02e-6)",
            "reversal is not required when an angular component is antipodal within 1e-6 (two shortest paths); the speed law still is",
            "quaternion inputs are unit; SO2 inputs may be non-canonical",
        ],
        json!({"lattice_size_per_setting": n_lat, "random_pairs_per_setting": n_rand}),
    )
}
