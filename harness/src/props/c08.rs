//! C08 API misuse and sampler failures surface as errors, never panics or stale answers.
use super::hist::{run_history, CallRec, History, Op};
use super::plan::{cfg_for, exec, make_scenario};
use crate::drv::{ErrKind, Res};
use crate::monitor::WorldEval;
use crate::spec::{Kit, ALL_WRAPS};
use crate::util::{par_shards, Batch, Ctx, Sm, Tier};
use crate::with_kit;
use crate::world::{gen_params, gen_problem, gen_spec, GenOpts, GoalMode, Hostility, PKind, ALL_PLANNERS};
use oxmpl::base::space::StateSpace;
use serde_json::{json, Value};

#[derive(Clone, Copy, PartialEq, Eq, Debug)]
pub enum Trigger {
    None,
    UniformSamplerError,
    GoalSamplerError,
    GoalBiasOutOfRange,
    EmptyStartStates,
    /// other numeric parameters outside their natural range (negative build time, radius, step):
    /// these do not panic on the unchanged tree and must not start to
    OtherParameterOutOfRange,
}
impl Trigger {
    fn name(&self) -> &'static str {
        match self {
            Trigger::None => "well-formed-input",
            Trigger::UniformSamplerError => "uniform_sampler_error",
            Trigger::GoalSamplerError => "goal_sampler_error",
            Trigger::GoalBiasOutOfRange => "goal_bias_out_of_range",
            Trigger::EmptyStartStates => "empty_start_states",
            Trigger::OtherParameterOutOfRange => "other_parameter_out_of_range",
        }
    }
}

pub fn base_history(r: &mut Sm, idx: usize) -> History {
    let wrap = ALL_WRAPS[idx % 6];
    let planner = ALL_PLANNERS[(idx / 6) % 4];
    let spec = gen_spec(r, wrap, &GenOpts { nonconvex: false, fracs: true, odd_weights: true, max_dim: 3 });
    let hosts = [Hostility::Plain, Hostility::Free, Hostility::GoalOverlap, Hostility::InvalidStart, Hostility::Free];
    let (h1, h2) = (*r.pick(&hosts), *r.pick(&hosts));
    let mut p1 = gen_problem(r, &spec, h1);
    let mut p2 = gen_problem(r, &spec, h2);
    // now and then the problem lists a second start state (a random state: valid or not)
    for p in [&mut p1, &mut p2] {
        if r.bool(0.1) {
            p.extra_starts.push(crate::world::rand_state(r, &spec));
            p.tags.push("several-start-states".into());
        }
    }
    if h1 == Hostility::InvalidStart && r.bool(0.3) {
        p1.put_goal_on_start();
    }
    if h2 == Hostility::InvalidStart && r.bool(0.3) {
        p2.put_goal_on_start();
    }
    if planner == PKind::Prm {
        p1.goal.radius *= 2.5;
        p2.goal.radius *= 2.5;
    }
    if r.bool(0.5) {
        p1.goal.mode = GoalMode::Rng;
    }
    let mut params = gen_params(r, &spec, planner, false);
    if planner != PKind::Prm {
        params.goal_bias = *r.pick(&[0.05, 0.2, 0.5]);
    }
    // another query towards the same goal: the second problem shares the first one's goal
    // (the history runner then hands over the very same goal and space objects)
    if r.bool(0.25) {
        p2.goal = p1.goal.clone();
        p2.infeasible = None;
        p2.tags.push("shares-the-goal-object-of-problem-0".into());
    }
    History { problems: vec![p1, p2], params, prm_samples: 5 + r.below(60) as u64, ops: vec![], uniform_fail_at: None, starts_override: None, script: None, prm_build_override: None }
}

pub fn op_alphabet(kind: PKind, r: &mut Sm) -> Vec<Op> {
    let n = 5 + r.below(120) as u64;
    if kind == PKind::Prm {
        vec![Op::Setup(0), Op::Setup(1), Op::Construct, Op::SetPd(1), Op::Solve(10), Op::SetupMixed(0, 1), Op::Construct, Op::Solve(10), Op::ScaleParams(0.5)]
    } else {
        vec![Op::Setup(0), Op::Setup(1), Op::Solve(n), Op::SetupMixed(0, 1), Op::Solve(n), Op::ScaleParams(0.5)]
    }
}

/// Reference model of the API state machine + "answers the installed problem" oracle.
fn judge_history<K: Kit>(ctx: &Ctx, b: &mut Batch, kit: &K, h: &History, recs: &[CallRec], trigger: Trigger) {
    let pname = h.params.kind.name();
    let replay = || {
        let mut v = h.to_json();
        v["property"] = json!("C08");
        v["trigger"] = json!(trigger.name());
        v
    };
    let evals: Vec<Option<WorldEval<K>>> = h.problems.iter().map(|p| WorldEval::<K>::new(kit, &p.world).ok()).collect();
    for (ci, c) in recs.iter().enumerate() {
        b.count("calls_checked", 1);
        match &c.res {
            Res::Panic { msg, loc } => {
                let site = loc.rsplit('/').next().unwrap_or(loc);
                let sig = match trigger {
                    Trigger::None => format!("panic:{pname}:well-formed-input"),
                    t => format!("panic:{pname}:{}", t.name()),
                };
                ctx.violate(&sig, format!("{} panicked at {site}: {} [history: {}]", c.op.short(), crate::util::trunc(msg, 200), h.describe()), replay());
                return;
            }
            Res::Budget => {
                b.count("budget_trips", 1);
                return;
            }
            _ => {}
        }
        let is_prm = h.params.kind == PKind::Prm;
        let initialised = c.pd.is_some() && c.checker.is_some();
        let unexpected = |what: &str| {
            ctx.violate(&format!("wrong-result:{pname}:{what}"), format!("call {ci} {} returned {} [history: {}]", c.op.short(), c.res.short(), h.describe()), replay());
        };
        match &c.op {
            Op::ScaleParams(_) => {}
            Op::Setup(_) | Op::SetupMixed(..) | Op::SetPd(_) => {
                if c.res != Res::Done {
                    unexpected("setup-did-not-return-normally");
                }
            }
            Op::Construct => {
                if !initialised {
                    b.count("model[construct-uninitialised]", 1);
                    if c.res != Res::Err(ErrKind::PlannerUninitialised) {
                        unexpected("construct-before-setup");
                    }
                } else if c.res != Res::Done {
                    unexpected("construct-failed");
                }
            }
            Op::Solve(_) => {
                if !initialised {
                    b.count("model[solve-uninitialised]", 1);
                    if c.res != Res::Err(ErrKind::PlannerUninitialised) {
                        unexpected("solve-before-setup");
                    }
                    continue;
                }
                if is_prm && !c.roadmap_nonempty_before {
                    b.count("model[query-before-roadmap]", 1);
                    if c.res != Res::Err(ErrKind::UnsampledStateSpace) {
                        unexpected("query-before-roadmap-construction");
                    }
                    continue;
                }
                let (pi, ki) = (c.pd.unwrap(), c.checker.unwrap());
                let prob = &h.problems[pi];
                let Some(eval) = &evals[ki] else { continue };
                if h.starts_override.as_ref().map(|l| l.is_empty()).unwrap_or(false) {
                    // no start at all: any error is fine, a path is not
                    if c.res.is_path() {
                        unexpected("path-without-start-state");
                    }
                    continue;
                }
                let start = kit.unflat(&prob.start);
                if !eval.valid(&start, &prob.start) {
                    // with several listed start states the error is only mandatory when none of
                    // them is valid; a planner may also plan from a valid one (judged below)
                    let other_valid = prob.extra_starts.iter().any(|e| eval.valid(&kit.unflat(e), e));
                    if !other_valid || c.res == Res::Err(ErrKind::InvalidStartState) {
                        b.count("model[invalid-start]", 1);
                        if c.res != Res::Err(ErrKind::InvalidStartState) {
                            unexpected("invalid-start");
                        }
                        continue;
                    }
                    b.count("model[first-start-invalid-another-valid]", 1);
                }
                match &c.res {
                    Res::Path(p) => {
                        b.count("model[path]", 1);
                        if p.len() >= 3 {
                            b.distinct.insert(super::paths::hash_path(p));
                        }
                        // the answer must be for the problem installed most recently
                        let same = |a: &Vec<f64>, b: &Vec<f64>| a.len() == b.len() && a.iter().zip(b.iter()).all(|(x, y)| x.to_bits() == y.to_bits());
                        let first_ok = !p.is_empty() && (same(&p[0], &prob.start) || prob.extra_starts.iter().any(|e| same(&p[0], e)));
                        if let (true, Some(bad)) = (first_ok, p.iter().position(|s| !eval.valid(&kit.unflat(s), s))) {
                            if !prob.extra_starts.is_empty() {
                                ctx.violate(&format!("stale-answer:{pname}:validity"), format!("call {ci}: path[{bad}] is invalid in the world of the installed checker (P{}) [history: {}]", ki + 1, h.describe()), replay());
                                continue;
                            }
                        }
                        if !first_ok {
                            ctx.violate(&format!("stale-answer:{pname}:start"), format!("call {ci}: path starts at {:?} but the installed problem P{} starts at {:?} [history: {}]", p.first(), pi + 1, prob.start, h.describe()), replay());
                        } else {
                            let gc = kit.unflat(&prob.goal.centre);
                            let dlast = eval.sp.distance(&kit.unflat(p.last().unwrap()), &gc);
                            if !(dlast <= prob.goal.radius) {
                                ctx.violate(&format!("stale-answer:{pname}:goal"), format!("call {ci}: path ends {dlast} from the goal centre of the installed problem P{} (radius {}) [history: {}]", pi + 1, prob.goal.radius, h.describe()), replay());
                            }
                            if let Some(bad) = p.iter().position(|s| !eval.valid(&kit.unflat(s), s)) {
                                ctx.violate(&format!("stale-answer:{pname}:validity"), format!("call {ci}: path[{bad}] is invalid in the world of the installed checker (P{}) [history: {}]", ki + 1, h.describe()), replay());
                            }
                        }
                    }
                    Res::Err(ErrKind::Timeout) => b.count("model[timeout]", 1),
                    // a documented outcome for every planner (today only PRM and RRT-Connect use it)
                    Res::Err(ErrKind::NoSolutionFound) => b.count("model[nosolution]", 1),
                    _ => unexpected("solve"),
                }
            }
        }
    }
}

fn run_one<K: Kit>(ctx: &Ctx, b: &mut Batch, kit: &K, h: &History, trigger: Trigger) {
    b.evaluations += 1;
    match run_history::<K>(kit, h, false, 3_000_000) {
        Ok((_, recs)) => {
            b.count(&format!("histories[{}]", h.params.kind.name()), 1);
            b.count(&format!("trigger[{}]", trigger.name()), 1);
            judge_history::<K>(ctx, b, kit, h, &recs, trigger);
            if b.samples.len() < 2 && recs.len() >= 4 {
                b.sample(json!({"history":h.describe(),"results":recs.iter().map(|c| c.res.short()).collect::<Vec<_>>(),"trigger":trigger.name()}));
            }
        }
        Err(e) => {
            // constructor or install failure: a panic in `new` is a finding too
            if e.contains("PANIC") {
                let sig = format!("panic:{}:{}", h.params.kind.name(), if trigger == Trigger::None { "constructor" } else { trigger.name() });
                let mut v = h.to_json();
                v["property"] = json!("C08");
                ctx.violate(&sig, e, v);
            } else {
                b.count("history_not_executable", 1);
            }
        }
    }
}

pub fn run(tier: Tier, seed: u64) -> i32 {
    let ctx = Ctx::new("C08", tier, seed, "fault_enumeration");
    let n_hist = tier.pick(8_000, 250_000);
    let n_worlds_exh = tier.pick(0usize, 48);
    let n_fault_worlds = tier.pick(48usize, 960);
    let n_w1 = tier.pick(4_000usize, 300_000);
    let shards = 64;
    par_shards(shards, crate::util::n_threads(), |sh| {
        let mut b = Batch::default();
        // (A) random call histories
        let mut i = sh;
        while i < n_hist {
            let mut r = Sm::derive(seed, &[8, i as u64]);
            let mut h = base_history(&mut r, i);
            let al = op_alphabet(h.params.kind, &mut r);
            let len = 1 + r.below(8);
            h.ops = (0..len).map(|_| r.pick(&al).clone()).collect();
            if r.bool(0.25) {
                // the same problem object re-used with a new environment (checker)
                let n = 5 + r.below(100) as u64;
                h.ops = if h.params.kind == PKind::Prm {
                    vec![Op::Setup(0), Op::Construct, Op::Solve(10), Op::SetupMixed(0, 1), Op::Construct, Op::Solve(10), Op::Setup(0), Op::Construct, Op::Solve(10)]
                } else {
                    vec![Op::Setup(0), Op::Solve(n), Op::SetupMixed(0, 1), Op::Solve(n), Op::Setup(0), Op::Solve(n)]
                };
            }
            if h.params.kind == PKind::Prm && i % 5 == 3 {
                // a second query towards the same goal (shared goal / space objects) from a start
                // state the installed checker rejects, after a first query has been answered;
                // then back to the first problem
                let mut p2 = h.problems[0].clone();
                p2.extra_starts.clear();
                p2.tags.push("shares-the-goal-object-of-problem-0".into());
                with_kit!(h.problems[0].spec, K, kit => {
                    if let Ok(ev) = WorldEval::<K>::new(&kit, &h.problems[0].world) {
                        for _ in 0..40 {
                            let cand = crate::world::rand_state(&mut r, &h.problems[0].spec);
                            if !ev.valid(&kit.unflat(&cand), &cand) {
                                p2.start = cand;
                                break;
                            }
                        }
                    }
                });
                if p2.start != h.problems[0].start {
                    h.problems[1] = p2;
                    h.ops = vec![Op::Setup(0), Op::Construct, Op::Solve(10), Op::SetPd(1), Op::Solve(10), Op::SetPd(0), Op::Solve(10)];
                    b.count("prm_second_query_sharing_the_goal_object", 1);
                }
            }
            if h.params.kind == PKind::Prm && i % 5 == 4 {
                // definitions that come and go: P1 answered, P2 set but never queried, then a new
                // definition (P1's start, P2's goal) allocated after P1's was freed
                let mut p3 = h.problems[0].clone();
                p3.goal = h.problems[1].goal.clone();
                p3.infeasible = None;
                h.problems[0].tags.push("drop-old-definitions".into());
                h.problems.push(p3);
                h.ops = vec![Op::Setup(0), Op::Construct, Op::Solve(10), Op::SetPd(1), Op::SetPd(2), Op::Solve(10), Op::SetPd(0), Op::SetPd(1), Op::Solve(10)];
                b.count("prm_histories_with_short_lived_definitions", 1);
            }
            with_kit!(h.problems[0].spec, K, kit => run_one::<K>(&ctx, &mut b, &kit, &h, Trigger::None));
            i += shards;
        }
        // (A') all call sequences up to length 5 (thorough)
        let mut w = sh;
        while w < n_worlds_exh {
            let mut r = Sm::derive(seed, &[88, w as u64]);
            let base = base_history(&mut r, w);
            let al = op_alphabet(base.params.kind, &mut r);
            for len in 1..=5usize {
                for code in 0..al.len().pow(len as u32) {
                    let mut c = code;
                    let mut h = base.clone();
                    h.ops = (0..len).map(|_| { let o = al[c % al.len()].clone(); c /= al.len(); o }).collect();
                    with_kit!(h.problems[0].spec, K, kit => run_one::<K>(&ctx, &mut b, &kit, &h, Trigger::None));
                    b.count("exhaustive_histories", 1);
                }
            }
            w += shards;
        }
        // (B) sampler faults at call k < 12, (C) parameters out of range
        let mut w = sh;
        while w < n_fault_worlds {
            let mut r = Sm::derive(seed, &[808, w as u64]);
            let mut base = base_history(&mut r, w);
            base.problems[0] = { let spec = base.problems[0].spec.clone(); gen_problem(&mut r, &spec, Hostility::Free) };
            let prm = base.params.kind == PKind::Prm;
            base.ops = if prm { vec![Op::Setup(0), Op::Construct, Op::Solve(10), Op::Solve(10)] } else { vec![Op::Setup(0), Op::Solve(40), Op::Solve(40)] };
            for k in 0..12u64 {
                let mut h = base.clone();
                h.uniform_fail_at = Some(k);
                with_kit!(h.problems[0].spec, K, kit => run_one::<K>(&ctx, &mut b, &kit, &h, Trigger::UniformSamplerError));
                if !prm {
                    let mut h = base.clone();
                    h.problems[0].goal.fail_at = Some(k);
                    h.params.goal_bias = 0.5;
                    with_kit!(h.problems[0].spec, K, kit => run_one::<K>(&ctx, &mut b, &kit, &h, Trigger::GoalSamplerError));
                } else if k < 4 {
                    // PRM has no use for the goal sampler today; should it ever ask (e.g. when
                    // no milestone lies in a tiny goal region), a failing sampler is an error
                    // value like any other, not a panic
                    let mut h = base.clone();
                    h.problems[0].goal.fail_at = Some(k / 2);
                    if k % 2 == 1 {
                        h.problems[0].goal.radius = 1e-9;
                    }
                    with_kit!(h.problems[0].spec, K, kit => run_one::<K>(&ctx, &mut b, &kit, &h, Trigger::GoalSamplerError));
                    b.count("prm_histories_with_failing_goal_sampler", 1);
                }
            }
            if !prm {
                for gb in [-0.1, 1.5, f64::NAN, f64::INFINITY, f64::NEG_INFINITY] {
                    let mut h = base.clone();
                    h.params.goal_bias = gb;
                    with_kit!(h.problems[0].spec, K, kit => run_one::<K>(&ctx, &mut b, &kit, &h, Trigger::GoalBiasOutOfRange));
                }
            }
            // negative / zero numeric parameters: no error is required, but no panic either
            for v in [-1.0, -0.0, -1e-300, -1e9, 0.0] {
                let mut h = base.clone();
                if prm {
                    h.params.connection_radius = if v == 0.0 { h.params.connection_radius } else { v };
                    h.prm_build_override = Some(v);
                } else {
                    h.params.max_distance = v;
                    h.params.search_radius = v;
                }
                h.ops.truncate(2 + prm as usize);
                with_kit!(h.problems[0].spec, K, kit => run_one::<K>(&ctx, &mut b, &kit, &h, Trigger::OtherParameterOutOfRange));
            }
            let mut h = base.clone();
            h.starts_override = Some(vec![]);
            with_kit!(h.problems[0].spec, K, kit => run_one::<K>(&ctx, &mut b, &kit, &h, Trigger::EmptyStartStates));
            w += shards;
        }
        // (D) well-formed W1 runs under the panic monitor
        let mut i = sh;
        while i < n_w1 {
            let mut r = Sm::derive(seed, &[8008, i as u64]);
            let hosts = [Hostility::Plain, Hostility::Free, Hostility::GoalOverlap, Hostility::InvalidStart, Hostility::SealedGoal, Hostility::GoalInvalid];
            let cfg = cfg_for(&mut r, i, &hosts, 0.3, &GenOpts { nonconvex: true, ..GenOpts::default() }, 1500, 0.3);
            let sc = make_scenario(&mut r, &cfg);
            b.evaluations += 1;
            with_kit!(sc.problem.spec, K, kit => {
                if let Ok((_, res)) = exec::<K>(&kit, &sc) {
                    b.count("w1_runs_under_panic_monitor", 1);
                    if let Res::Panic { msg, loc } = &res {
                        let mut v = sc.to_json();
                        v["property"] = json!("C08");
                        ctx.violate(&format!("panic:{}:well-formed-input", sc.params.kind.name()), format!("{} at {loc}: {}", sc.describe(), crate::util::trunc(msg, 200)), v);
                    }
                }
            });
            i += shards;
        }
        ctx.merge(b);
    });
    for p in ALL_PLANNERS {
        ctx.require(&format!("histories[{}]", p.name()));
    }
    for k in ["model[solve-uninitialised]", "model[query-before-roadmap]", "model[construct-uninitialised]", "model[invalid-start]", "model[path]", "trigger[uniform_sampler_error]", "trigger[goal_sampler_error]", "trigger[goal_bias_out_of_range]", "trigger[empty_start_states]", "trigger[other_parameter_out_of_range]", "w1_runs_under_panic_monitor"] {
        ctx.require(k);
    }
    ctx.finish(
        "cases = (A) random call histories of length <= 8 over {setup(P1), setup(P2), construct_roadmap, set_problem_definition(P2), solve} per planner (thorough: all sequences of length <= 5 on several worlds), each call compared with a sequential reference model of the API state machine and every Ok path checked against the problem and checker installed at that moment; (B) uniform / goal sampler returning Err at its k-th call for every k < 12; (C) goal bias in {-0.1, 1.5, NaN, +-inf}, empty start list; (D) well-formed generated scenarios under the panic monitor; distinct+non-trivial = distinct returned paths with >= 3 states",
        &[
            "after a panic the history stops (the planner may be inconsistent after unwinding)",
            "known finding K-3: panics on sampler Err, goal bias outside [0,1] / NaN, empty start list are keyed on (planner, trigger); any other panic is reported",
            "release build with overflow checks enabled; the thorough tier adds a Miri run of a small workload (./checks/C08.sh)",
        ],
        json!({"miri": ctx.fold_miri_summary(), "random_histories": n_hist, "exhaustive_worlds": n_worlds_exh, "fault_worlds": n_fault_worlds, "w1_runs": n_w1}),
    )
}

pub fn replay(v: &Value, file: &str) -> i32 {
    let mut ctx = Ctx::new("C08", Tier::Quick, 0, "fault_enumeration");
    ctx.replay_of = Some(file.to_string());
    let mut b = Batch::default();
    if v["kind"] == "history" {
        let h = History::from_json(v);
        let trigger = match v["trigger"].as_str().unwrap_or("") {
            "uniform_sampler_error" => Trigger::UniformSamplerError,
            "goal_sampler_error" => Trigger::GoalSamplerError,
            "goal_bias_out_of_range" => Trigger::GoalBiasOutOfRange,
            "empty_start_states" => Trigger::EmptyStartStates,
            "other_parameter_out_of_range" => Trigger::OtherParameterOutOfRange,
            _ => Trigger::None,
        };
        with_kit!(h.problems[0].spec, K, kit => run_one::<K>(&ctx, &mut b, &kit, &h, trigger));
    } else {
        let sc = super::plan::Scenario::from_json(v);
        with_kit!(sc.problem.spec, K, kit => {
            if let Ok((_, Res::Panic { msg, loc })) = exec::<K>(&kit, &sc) {
                ctx.violate(&format!("panic:{}:well-formed-input", sc.params.kind.name()), format!("{loc}: {msg}"), v.clone());
            }
        });
    }
    ctx.merge(b);
    ctx.finish("replay of one recorded C08 case", &[], json!({"replay": true}))
}
