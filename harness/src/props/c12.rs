//! C12 Constructors accept only well-formed bounds and canonicalise states.
//! The argument lattice is finite and enumerated completely (exhaustive: true).
use crate::drv::{guarded, Res};
use crate::refm::quat_norm;
use crate::util::{fj, fjs, fnv, hash_f64s, par_shards, ulp_down, ulp_up, Batch, Ctx, Tier, FNV0};
use oxmpl::base::error::{StateError, StateSamplingError, StateSpaceError};
use oxmpl::base::space::{RealVectorStateSpace, SE2StateSpace, SE3StateSpace, SO2StateSpace, SO3StateSpace, StateSpace};
use oxmpl::base::state::{RealVectorState, SE2State, SO2State, SO3State};
use rand::SeedableRng;
use rand_chacha::ChaCha8Rng;
use serde_json::json;
use std::f64::consts::PI;

pub fn bound_values() -> Vec<f64> {
    vec![
        f64::NEG_INFINITY,
        -1e308,
        -10.0,
        ulp_down(-PI),
        -PI,
        ulp_up(-PI),
        -1.0,
        -0.0,
        0.0,
        1e-300,
        1.0,
        ulp_down(PI),
        PI,
        ulp_up(PI),
        4.0,
        5.0,
        10.0,
        1e308,
        f64::INFINITY,
        f64::NAN,
    ]
}
fn small_bound_values() -> Vec<f64> {
    vec![f64::NEG_INFINITY, -1e308, -1.0, 0.0, 1.0, 1e308, f64::INFINITY, f64::NAN]
}

fn well_formed_r(lo: f64, hi: f64) -> bool {
    lo < hi
}

fn rep(ctx: &Ctx, sig: &str, detail: String, args: serde_json::Value) {
    ctx.violate(sig, detail, json!({"kind":"constructor","args":args}));
}

/// Usability of an Ok R^n space: bounds ops and sampling never panic and agree.
fn use_r(ctx: &Ctx, b: &mut Batch, sp: &RealVectorStateSpace, bounds: &[(f64, f64)], args: &serde_json::Value) {
    let n = bounds.len();
    let mut probes: Vec<Vec<f64>> = vec![
        bounds.iter().map(|p| p.0).collect(),
        bounds.iter().map(|p| p.1).collect(),
        bounds.iter().map(|p| if p.0.is_finite() && p.1.is_finite() { p.0 / 2.0 + p.1 / 2.0 } else { 0.0 }).collect(),
        vec![-1e308; n],
        vec![1e308; n],
        vec![0.0; n],
    ];
    probes.push(vec![f64::NAN; n]);
    for p in probes {
        let r = guarded(|| {
            let mut s = RealVectorState { values: p.clone() };
            let before = sp.satisfies_bounds(&s);
            sp.enforce_bounds(&mut s);
            let after = sp.satisfies_bounds(&s);
            (before, after, s.values)
        });
        b.count("usability_probes", 1);
        match r {
            Err(Res::Panic { msg, loc }) => rep(ctx, "panic-after-ok-constructor:Rn-bounds-ops", format!("enforce/satisfies panicked at {loc}: {msg} on state {p:?}"), args.clone()),
            Ok((_, _after, _vals)) => {
                // agreement of enforce / satisfies is C11's business; C12 only requires "usable
                // without panicking"
            }
            _ => {}
        }
    }
    let mut rng = ChaCha8Rng::seed_from_u64(7);
    let r = guarded(|| sp.sample_uniform(&mut rng));
    b.count("sampling_probes", 1);
    let all_finite = bounds.iter().all(|p| p.0.is_finite() && p.1.is_finite());
    match r {
        Err(Res::Panic { msg, loc }) => {
            let sig = if all_finite { "panic-after-ok-constructor:Rn-sample-finite-bounds" } else { "panic-after-ok-constructor:Rn-sample" };
            rep(ctx, sig, format!("sample_uniform panicked at {loc}: {msg}"), args.clone())
        }
        Ok(Ok(s)) => {
            if !all_finite {
                rep(ctx, "sampled-unbounded-space:Rn", format!("sample_uniform returned {:?} although a dimension is unbounded", s.values), args.clone());
            } else if s.values.iter().zip(bounds).any(|(x, p)| !(*x >= p.0 && *x <= p.1)) {
                rep(ctx, "sample-out-of-bounds:Rn", format!("sample {:?}", s.values), args.clone());
            }
        }
        Ok(Err(StateSamplingError::UnboundedDimension { dimension_index })) => {
            let width_overflow = bounds.iter().any(|p| !(p.1 - p.0).is_finite());
            if all_finite && !width_overflow {
                rep(ctx, "spurious-unbounded-error:Rn", format!("UnboundedDimension({dimension_index}) for finite bounds"), args.clone());
            }
        }
        Ok(Err(e)) => {
            if n > 0 {
                rep(ctx, "unexpected-sampling-error:Rn", format!("{e:?}"), args.clone());
            }
        }
        _ => {}
    }
}

fn check_r(ctx: &Ctx, b: &mut Batch, dim: usize, bounds: Option<Vec<(f64, f64)>>) {
    b.evaluations += 1;
    let args = json!({"ctor":"RealVectorStateSpace::new","dim":dim,"bounds":bounds.as_ref().map(|v| v.iter().map(|p| json!([fj(p.0),fj(p.1)])).collect::<Vec<_>>())});
    let bb = bounds.clone();
    let r = guarded(move || RealVectorStateSpace::new(dim, bb));
    let r = match r {
        Ok(r) => r,
        Err(e) => {
            rep(ctx, "constructor-panicked:Rn", e.short(), args);
            return;
        }
    };
    let len_ok = bounds.as_ref().map(|v| v.len() == dim).unwrap_or(true);
    let pairs_ok = bounds.as_ref().map(|v| v.iter().all(|p| well_formed_r(p.0, p.1))).unwrap_or(true);
    let zero_unb = bounds.is_none() && dim == 0;
    match r {
        Ok(sp) => {
            b.count("ctor_ok[Rn]", 1);
            if !len_ok || !pairs_ok || zero_unb {
                rep(ctx, if !pairs_ok && bounds.as_ref().unwrap().iter().any(|p| p.0.is_nan() || p.1.is_nan()) { "accepted-ill-formed-bounds:Rn-NaN" } else { "accepted-ill-formed-bounds:Rn" }, format!("Ok(space) with stored bounds {:?}", sp.bounds), args.clone());
            }
            if sp.dimension != dim || sp.bounds.len() != dim {
                rep(ctx, "stored-dimension-mismatch:Rn", format!("dimension {} bounds {}", sp.dimension, sp.bounds.len()), args.clone());
            }
            if let Some(given) = &bounds {
                if len_ok && sp.bounds.iter().zip(given).any(|(s, g)| s.0.to_bits() != g.0.to_bits() || s.1.to_bits() != g.1.to_bits()) {
                    rep(ctx, "stored-bounds-differ:Rn", format!("stored {:?}", sp.bounds), args.clone());
                }
            }
            if len_ok {
                let stored = sp.bounds.clone();
                use_r(ctx, b, &sp, &stored, &args);
            }
        }
        Err(e) => {
            b.count("ctor_err[Rn]", 1);
            if len_ok && pairs_ok && !zero_unb {
                rep(ctx, "rejected-well-formed-bounds:Rn", format!("{e:?}"), args.clone());
            }
            let ok_variant = match &e {
                StateSpaceError::DimensionMismatch { expected, found } => !len_ok && *expected == dim && Some(*found) == bounds.as_ref().map(|v| v.len()),
                StateSpaceError::InvalidBound { lower, upper } => !pairs_ok && bounds.as_ref().unwrap().iter().any(|p| !well_formed_r(p.0, p.1) && p.0.to_bits() == lower.to_bits() && p.1.to_bits() == upper.to_bits()),
                StateSpaceError::ZeroDimensionUnbounded => zero_unb,
                _ => false,
            };
            if !ok_variant && !(len_ok && pairs_ok && !zero_unb) {
                rep(ctx, "wrong-error-variant:Rn", format!("{e:?}"), args);
            }
        }
    }
}

fn so2_stored_well_formed(b: (f64, f64)) -> bool {
    b.0 < b.1 && b.0 >= -PI && b.1 <= PI
}

fn use_so2(ctx: &Ctx, b: &mut Batch, sp: &SO2StateSpace, args: &serde_json::Value, tag: &str) {
    let (lo, hi) = sp.bounds;
    for v in [lo, hi, (lo + hi) / 2.0, 0.0, 4.0, -4.0, 100.0, PI, -PI, f64::NAN] {
        let r = guarded(|| {
            let mut s = SO2State { value: v };
            let _ = sp.satisfies_bounds(&s);
            sp.enforce_bounds(&mut s);
            (sp.satisfies_bounds(&s), s.value)
        });
        b.count("usability_probes", 1);
        if let Err(Res::Panic { msg, loc }) = r {
            rep(ctx, &format!("panic-after-ok-constructor:{tag}-bounds-ops"), format!("{loc}: {msg} on angle {v}"), args.clone());
        }
    }
    let mut rng = ChaCha8Rng::seed_from_u64(11);
    for _ in 0..3 {
        let r = guarded(|| sp.sample_uniform(&mut rng));
        b.count("sampling_probes", 1);
        match r {
            Err(Res::Panic { msg, loc }) => {
                rep(ctx, &format!("panic-after-ok-constructor:{tag}-sample"), format!("{loc}: {msg}"), args.clone());
                break;
            }
            Ok(Ok(s)) => {
                if !(s.value >= lo && s.value <= hi) {
                    rep(ctx, &format!("sample-out-of-bounds:{tag}"), format!("sample {} not in [{lo},{hi}]", s.value), args.clone());
                }
            }
            Ok(Err(e)) => rep(ctx, &format!("unexpected-sampling-error:{tag}"), format!("{e:?}"), args.clone()),
            _ => {}
        }
    }
}

fn check_so2(ctx: &Ctx, b: &mut Batch, bounds: Option<(f64, f64)>) {
    b.evaluations += 1;
    let args = json!({"ctor":"SO2StateSpace::new","bounds":bounds.map(|p| json!([fj(p.0),fj(p.1)]))});
    let r = match guarded(move || SO2StateSpace::new(bounds)) {
        Ok(r) => r,
        Err(e) => {
            rep(ctx, "constructor-panicked:SO2", e.short(), args);
            return;
        }
    };
    let plainly_ok = bounds.map(|(l, h)| l >= -PI && l < h && h <= PI).unwrap_or(true);
    match r {
        Ok(sp) => {
            b.count("ctor_ok[SO2]", 1);
            if !so2_stored_well_formed(sp.bounds) {
                rep(ctx, "accepted-ill-formed-bounds:SO2", format!("Ok(space) with stored bounds {:?}", sp.bounds), args.clone());
            } else {
                let (gl, gh) = bounds.unwrap_or((-PI, PI));
                // stored interval = given interval clamped to [-pi,pi]
                if sp.bounds.0.to_bits() != gl.max(-PI).to_bits() || sp.bounds.1.to_bits() != gh.min(PI).to_bits() {
                    rep(ctx, "stored-bounds-differ:SO2", format!("stored {:?}", sp.bounds), args.clone());
                }
            }
            use_so2(ctx, b, &sp, &args, "SO2");
        }
        Err(e) => {
            b.count("ctor_err[SO2]", 1);
            if plainly_ok {
                rep(ctx, "rejected-well-formed-bounds:SO2", format!("{e:?}"), args.clone());
            } else if !matches!(e, StateSpaceError::InvalidBound { .. }) {
                rep(ctx, "wrong-error-variant:SO2", format!("{e:?}"), args);
            }
        }
    }
}

fn check_so3(ctx: &Ctx, b: &mut Batch, centre: [f64; 4], radius: Option<f64>) {
    b.evaluations += 1;
    let args = json!({"ctor":"SO3StateSpace::new","centre":fjs(&centre),"radius":radius.map(fj)});
    let arg = radius.map(|r| (SO3State { x: centre[0], y: centre[1], z: centre[2], w: centre[3] }, r));
    let r = match guarded(move || SO3StateSpace::new(arg)) {
        Ok(r) => r,
        Err(e) => {
            rep(ctx, "constructor-panicked:SO3", e.short(), args);
            return;
        }
    };
    match r {
        Ok(sp) => {
            b.count("ctor_ok[SO3]", 1);
            let sr = sp.bounds.1;
            if !(sr >= 0.0 && sr <= PI) {
                rep(ctx, "accepted-ill-formed-bounds:SO3", format!("stored radius {sr}"), args.clone());
            } else if let Some(g) = radius {
                if g >= 0.0 && sr.to_bits() != g.min(PI).to_bits() {
                    rep(ctx, "stored-bounds-differ:SO3", format!("stored radius {sr}"), args.clone());
                }
            }
            // usability: bounds operations on a few states; sampling only where rejection
            // sampling terminates quickly (radius >= 0.1 or < 1e-9)
            for q in [[0.0, 0.0, 0.0, 1.0], [1.0, 0.0, 0.0, 0.0], [0.5, 0.5, 0.5, 0.5], [0.0, 0.0, 0.0, 0.0], [3.0, 0.0, 4.0, 0.0]] {
                let rr = guarded(|| {
                    let mut s = SO3State { x: q[0], y: q[1], z: q[2], w: q[3] };
                    let _ = sp.satisfies_bounds(&s);
                    sp.enforce_bounds(&mut s);
                    sp.satisfies_bounds(&s)
                });
                b.count("usability_probes", 1);
                if let Err(Res::Panic { msg, loc }) = rr {
                    rep(ctx, "panic-after-ok-constructor:SO3-bounds-ops", format!("{loc}: {msg} on {q:?}"), args.clone());
                }
            }
            if sr >= 0.1 || sr < 1e-9 {
                let mut rng = ChaCha8Rng::seed_from_u64(5);
                let rr = guarded(|| sp.sample_uniform(&mut rng));
                b.count("sampling_probes", 1);
                match rr {
                    Err(Res::Panic { msg, loc }) => rep(ctx, "panic-after-ok-constructor:SO3-sample", format!("{loc}: {msg}"), args.clone()),
                    Ok(Ok(s)) => {
                        let d = crate::refm::ref_so3_dist(&[sp.bounds.0.x, sp.bounds.0.y, sp.bounds.0.z, sp.bounds.0.w], &[s.x, s.y, s.z, s.w]);
                        if !(d <= sr + 1e-7) {
                            rep(ctx, "sample-out-of-bounds:SO3", format!("{s:?} at angle {d} from the centre, radius {sr}"), args.clone());
                        }
                    }
                    Ok(Err(e)) => rep(ctx, "unexpected-sampling-error:SO3", format!("{e:?}"), args.clone()),
                    _ => {}
                }
            }
        }
        Err(e) => {
            b.count("ctor_err[SO3]", 1);
            let justified = radius.map(|r| r < 0.0 || r.is_nan()).unwrap_or(false);
            if !justified {
                rep(ctx, "rejected-well-formed-bounds:SO3", format!("{e:?}"), args.clone());
            } else if !matches!(e, StateSpaceError::InvalidAngularDistance { .. }) {
                rep(ctx, "wrong-error-variant:SO3", format!("{e:?}"), args);
            }
        }
    }
}

fn check_se(ctx: &Ctx, b: &mut Batch, se3: bool, weight: f64, bounds: Option<Vec<(f64, f64)>>) {
    b.evaluations += 1;
    let tag = if se3 { "SE3" } else { "SE2" };
    let args = json!({"ctor":format!("{tag}StateSpace::new"),"weight":fj(weight),"bounds":bounds.as_ref().map(|v| v.iter().map(|p| json!([fj(p.0),fj(p.1)])).collect::<Vec<_>>())});
    let len_ok = bounds.as_ref().map(|v| v.len() == 3).unwrap_or(true);
    let nr = if se3 { 3 } else { 2 };
    let r_ok = bounds.as_ref().map(|v| v.iter().take(nr).all(|p| well_formed_r(p.0, p.1))).unwrap_or(true);
    let a_plain = if se3 { true } else { bounds.as_ref().and_then(|v| v.get(2)).map(|(l, h)| *l >= -PI && l < h && *h <= PI).unwrap_or(true) };
    let a_possible = if se3 { true } else { bounds.as_ref().and_then(|v| v.get(2)).map(|(l, h)| l.max(-PI) < h.min(PI)).unwrap_or(true) };
    let bb = bounds.clone();
    enum Either {
        Se2(Result<SE2StateSpace, StateSpaceError>),
        Se3(Result<SE3StateSpace, StateSpaceError>),
    }
    let r = guarded(move || if se3 { Either::Se3(SE3StateSpace::new(weight, bb)) } else { Either::Se2(SE2StateSpace::new(weight, bb)) });
    let r = match r {
        Ok(r) => r,
        Err(e) => {
            rep(ctx, &format!("constructor-panicked:{tag}"), e.short(), args);
            return;
        }
    };
    let (is_ok, err) = match &r {
        Either::Se2(Ok(_)) | Either::Se3(Ok(_)) => (true, None),
        Either::Se2(Err(e)) | Either::Se3(Err(e)) => (false, Some(format!("{e:?}"))),
    };
    if is_ok {
        b.count(&format!("ctor_ok[{tag}]"), 1);
        if !len_ok || !r_ok || !a_possible {
            rep(ctx, &format!("accepted-ill-formed-bounds:{tag}"), "Ok(space)".into(), args.clone());
            // still probe usability below: a panic there is the practical consequence
        }
        // usability through the public StateSpace interface
        let rr = guarded(|| {
            let mut rng = ChaCha8Rng::seed_from_u64(3);
            match &r {
                Either::Se2(Ok(sp)) => {
                    let mut s = SE2State::new(1e9, -1e9, 10.0);
                    sp.enforce_bounds(&mut s);
                    let _ = sp.satisfies_bounds(&s);
                    let smp = sp.sample_uniform(&mut rng).map(|x| {
                        let _ = sp.satisfies_bounds(&x);
                        true
                    });
                    (true, smp)
                }
                Either::Se3(Ok(sp)) => {
                    let mut s = oxmpl::base::state::SE3State::new(1e9, -1e9, 0.0, SO3State::new(0.0, 0.0, 2.0, 0.0));
                    sp.enforce_bounds(&mut s);
                    let _ = sp.satisfies_bounds(&s);
                    let smp = sp.sample_uniform(&mut rng).map(|x| {
                        let _ = sp.satisfies_bounds(&x);
                        true
                    });
                    (true, smp)
                }
                _ => unreachable!(),
            }
        });
        b.count("usability_probes", 1);
        match rr {
            Err(Res::Panic { msg, loc }) => rep(ctx, &format!("panic-after-ok-constructor:{tag}"), format!("{loc}: {msg}"), args.clone()),
            Ok((e_ok, smp)) => {
                if len_ok && r_ok && a_possible {
                    if !e_ok {
                        rep(ctx, &format!("enforced-state-rejected:{tag}"), "enforce_bounds result fails satisfies_bounds".into(), args.clone());
                    }
                    let finite = bounds.as_ref().map(|v| v.iter().take(nr).all(|p| p.0.is_finite() && p.1.is_finite())).unwrap_or(false);
                    match smp {
                        Ok(false) => rep(ctx, &format!("sample-out-of-bounds:{tag}"), "sample fails satisfies_bounds".into(), args.clone()),
                        Ok(true) if !finite => rep(ctx, &format!("sampled-unbounded-space:{tag}"), "sample from an unbounded space".into(), args.clone()),
                        Err(StateSamplingError::UnboundedDimension { .. }) => {
                            let overflow = bounds.as_ref().map(|v| v.iter().take(nr).any(|p| !(p.1 - p.0).is_finite())).unwrap_or(true);
                            if finite && !overflow {
                                rep(ctx, &format!("spurious-unbounded-error:{tag}"), "UnboundedDimension for finite bounds".into(), args.clone());
                            }
                        }
                        Err(e) => rep(ctx, &format!("unexpected-sampling-error:{tag}"), format!("{e:?}"), args.clone()),
                        _ => {}
                    }
                }
            }
            _ => {}
        }
    } else {
        b.count(&format!("ctor_err[{tag}]"), 1);
        if len_ok && r_ok && a_plain {
            rep(ctx, &format!("rejected-well-formed-bounds:{tag}"), err.clone().unwrap(), args.clone());
        }
        let e = err.unwrap();
        let ok_variant = (e.starts_with("DimensionMismatch") && !len_ok) || (e.starts_with("InvalidBound") && (!r_ok || !a_plain));
        if !ok_variant && !(len_ok && r_ok && a_plain) {
            rep(ctx, &format!("wrong-error-variant:{tag}"), e, args);
        }
    }
}

// ------------------------------------------------------------------------------------------
// state constructors
// ------------------------------------------------------------------------------------------
pub fn angle_values() -> Vec<f64> {
    let mut v = vec![0.0, -0.0, 1e-320, 5e-324, 1e-300, 1e-9, 1.0, 3.0, PI, ulp_up(PI), ulp_down(PI), 2.0 * PI, 3.0 * PI, 4.0, 7.0, 10.0, 100.0, 1e3, 12345.678, 1e6, 1e9, 1e12, 1e15, 1e16, 1e20, 1e50, 1e100, 1e200, 1e300, f64::MAX, f64::MAX / 2.0, PI / 2.0, 3.0 * PI / 2.0, 2.0 * PI - 1e-12, 2.0 * PI + 1e-12];
    let n = v.len();
    for i in 0..n {
        v.push(-v[i]);
    }
    // a sweep of multiples of pi/4 +- ulp
    for k in -40..=40 {
        let x = k as f64 * PI / 4.0;
        v.push(x);
        v.push(ulp_up(x));
        v.push(ulp_down(x));
    }
    v
}

fn check_angle(ctx: &Ctx, b: &mut Batch, v: f64) {
    b.evaluations += 1;
    let results = [
        ("SO2State::new", guarded(|| SO2State::new(v).value)),
        ("SE2State::new", guarded(|| SE2State::new(0.5, -0.5, v).get_yaw())),
        ("SO2State::normalise", guarded(|| SO2State { value: v }.normalise().value)),
    ];
    for (name, r) in results {
        b.count("angle_canonicalisations", 1);
        let args = json!({"ctor":name,"angle":fj(v)});
        match r {
            Err(e) => rep(ctx, &format!("constructor-panicked:{name}"), e.short(), args),
            Ok(c) => {
                if !(c >= -PI && c <= PI) {
                    rep(ctx, &format!("angle-not-canonical:{name}"), format!("{name}({v}) stores {c}"), args);
                } else if v.abs() <= 1e15 {
                    // congruent mod 2 pi
                    let d = v - c;
                    let k = (d / (2.0 * PI)).round();
                    let resid = (d - k * 2.0 * PI).abs();
                    let tol = 8.0 * f64::EPSILON * v.abs().max(PI) + 1e-15 * k.abs();
                    if !(resid <= tol) {
                        rep(ctx, &format!("angle-not-congruent:{name}"), format!("{name}({v}) stores {c}: residual {resid} mod 2pi (tol {tol:e})"), args);
                    }
                    if (v.abs() > PI) && c != v {
                        b.distinct.insert(fnv(FNV0, v.to_bits()));
                    }
                }
            }
        }
    }
}

pub fn quat_components() -> Vec<f64> {
    vec![0.0, 5e-324, 1e-200, 1e-160, 1e-10, 5e-10, 1e-9, 2e-9, 1e-5, 0.5, -0.5, 1.0, -3.0, 1e10, 1e150, 1e154, -1e155, 1e200, 1e300, f64::MAX / 2.0, f64::MAX]
}

fn check_quat(ctx: &Ctx, b: &mut Batch, q: [f64; 4]) {
    b.evaluations += 1;
    let args = json!({"ctor":"SO3State::normalise","q":fjs(&q)});
    let r = guarded(|| SO3State { x: q[0], y: q[1], z: q[2], w: q[3] }.normalise());
    let m = q.iter().fold(0.0f64, |a, x| a.max(x.abs()));
    // true norm, overflow-safe, as (m, norm/m)
    let rel = if m > 0.0 { q.iter().map(|x| (x / m) * (x / m)).sum::<f64>().sqrt() } else { 0.0 };
    let true_norm_small = m == 0.0 || (m < 1e-8 && m * rel < 1.0000001e-9);
    match r {
        Err(e) => rep(ctx, "constructor-panicked:SO3State::normalise", e.short(), args),
        Ok(Err(StateError::ZeroMagnitude)) => {
            b.count("normalise_err", 1);
            if !true_norm_small {
                rep(ctx, "zero-magnitude-for-nonzero-quaternion", format!("norm is about {:e}", m * rel), args);
            }
        }
        Ok(Ok(u)) => {
            b.count("normalise_ok", 1);
            let uf = [u.x, u.y, u.z, u.w];
            let n = quat_norm(&uf);
            let sig = if m > 1e150 { "huge" } else if m < 1e-150 { "tiny" } else { "ordinary" };
            if !((n - 1.0).abs() <= 1e-12) {
                rep(ctx, &format!("normalise-not-unit:{sig}"), format!("normalise({q:?}) = {uf:?} with norm {n}"), args);
                return;
            }
            // parallel: compare with the safely normalised input
            let mut worst = 0.0f64;
            for i in 0..4 {
                let e = (q[i] / m) / rel;
                worst = worst.max((e - uf[i]).abs());
            }
            if !(worst <= 1e-12) {
                rep(ctx, &format!("normalise-not-parallel:{sig}"), format!("normalise({q:?}) = {uf:?}, component error {worst}"), args);
            }
            b.distinct.insert(hash_f64s(FNV0, &q));
        }
    }
}

pub fn run(tier: Tier, seed: u64) -> i32 {
    let ctx = Ctx::new("C12", tier, seed, "exploration");
    let thorough = tier == Tier::Thorough;
    let vals = bound_values();
    let pairs: Vec<(f64, f64)> = vals.iter().flat_map(|a| vals.iter().map(move |b| (*a, *b))).collect();
    let small = small_bound_values();
    let spairs: Vec<(f64, f64)> = small.iter().flat_map(|a| small.iter().map(move |b| (*a, *b))).collect();

    // --- RealVectorStateSpace: all dimension x length combinations
    let mut jobs: Vec<Box<dyn Fn(&Ctx, &mut Batch) + Send + Sync>> = vec![];
    for dim in 0..=3usize {
        let (p1, p2) = (pairs.clone(), spairs.clone());
        jobs.push(Box::new(move |ctx, b| {
            check_r(ctx, b, dim, None);
            check_r(ctx, b, dim, Some(vec![]));
            for p in &p1 {
                check_r(ctx, b, dim, Some(vec![*p]));
            }
            // length 2: full lattice when it matches the dimension, reduced otherwise
            let l2: &Vec<(f64, f64)> = if dim == 2 { &p1 } else { &p2 };
            for a in l2 {
                for c in l2 {
                    check_r(ctx, b, dim, Some(vec![*a, *c]));
                }
            }
            // three bounds: reduced lattice; the thorough tier uses the full 400-pair lattice where
            // the length matches the dimension (64 million constructor calls)
            let l3: &Vec<(f64, f64)> = if dim == 3 && thorough { &p1 } else { &p2 };
            for a in l3 {
                for c in l3 {
                    for d in l3 {
                        check_r(ctx, b, dim, Some(vec![*a, *c, *d]));
                    }
                }
            }
            check_r(ctx, b, dim, Some(vec![(0.0, 1.0); 4]));
        }));
    }
    // --- SO2
    {
        let p1 = pairs.clone();
        jobs.push(Box::new(move |ctx, b| {
            check_so2(ctx, b, None);
            for p in &p1 {
                check_so2(ctx, b, Some(*p));
            }
        }));
    }
    // --- SO3
    {
        let vals = vals.clone();
        jobs.push(Box::new(move |ctx, b| {
            let h = std::f64::consts::FRAC_1_SQRT_2;
            for c in [[0.0, 0.0, 0.0, 1.0], [1.0, 0.0, 0.0, 0.0], [h, 0.0, h, 0.0], [0.5, -0.5, 0.5, 0.5]] {
                check_so3(ctx, b, c, None);
                for r in vals.iter().chain([0.1, 0.5, 1.5707963267948966, 2.0, 3.0, 1e-12, -1e-12, -1e-300].iter()) {
                    check_so3(ctx, b, c, Some(*r));
                }
            }
        }));
    }
    // --- SE2 / SE3
    for se3 in [false, true] {
        let (p1, p2) = (pairs.clone(), spairs.clone());
        jobs.push(Box::new(move |ctx, b| {
            for w in [0.0, 0.5, 1.0] {
                check_se(ctx, b, se3, w, None);
                for n in [0usize, 1, 2, 4] {
                    check_se(ctx, b, se3, w, Some(vec![(-1.0, 1.0); n]));
                }
            }
            // third bound over the full lattice with good translation bounds, and reduced
            // lattice on everything
            for p in &p1 {
                check_se(ctx, b, se3, 1.0, Some(vec![(-1.0, 1.0), (-2.0, 2.0), *p]));
                check_se(ctx, b, se3, 1.0, Some(vec![*p, (-2.0, 2.0), (-1.0, 1.0)]));
            }
            // thorough: a 12-value lattice (144 pairs, 3 million triples) instead of 8 values
            let l3: Vec<(f64, f64)> = if thorough {
                let v = [f64::NEG_INFINITY, -1e308, -4.0, -PI, -1.0, 0.0, 1.0, PI, 4.0, 1e308, f64::INFINITY, f64::NAN];
                v.iter().flat_map(|a| v.iter().map(move |b| (*a, *b))).collect()
            } else {
                p2.clone()
            };
            for a in &l3 {
                for c in &l3 {
                    for d in &l3 {
                        check_se(ctx, b, se3, 0.5, Some(vec![*a, *c, *d]));
                    }
                }
            }
        }));
    }
    // --- angles
    jobs.push(Box::new(move |ctx, b| {
        for v in angle_values() {
            check_angle(ctx, b, v);
        }
    }));
    // --- quaternions: all 4-tuples over the component lattice, split in shards
    let qc = quat_components();
    for x in qc.clone() {
        let qc = qc.clone();
        jobs.push(Box::new(move |ctx, b| {
            for y in &qc {
                for z in &qc {
                    for w in &qc {
                        check_quat(ctx, b, [x, *y, *z, *w]);
                    }
                }
            }
        }));
    }
    par_shards(jobs.len(), crate::util::n_threads(), |i| {
        let mut b = Batch::default();
        jobs[i](&ctx, &mut b);
        // distinct non-trivial cases for the space constructors: counted per accepted/rejected argument set
        ctx.merge(b);
    });
    ctx.sample(json!({"ctor":"RealVectorStateSpace::new","dim":1,"bounds":[["NaN",1.0]],"expected":"Err(InvalidBound)"}));
    ctx.sample(json!({"ctor":"SO2StateSpace::new","bounds":[4.0,5.0],"expected":"Err(InvalidBound) - nothing of (4,5) lies inside [-pi,pi]"}));
    ctx.sample(json!({"ctor":"SO3State::normalise","q":[1e200,0.0,0.0,0.0],"expected":"Ok((1,0,0,0))"}));
    for k in ["ctor_ok[Rn]", "ctor_err[Rn]", "ctor_ok[SO2]", "ctor_err[SO2]", "ctor_ok[SO3]", "ctor_err[SO3]", "ctor_ok[SE2]", "ctor_err[SE2]", "ctor_ok[SE3]", "ctor_err[SE3]", "normalise_ok", "normalise_err", "angle_canonicalisations", "sampling_probes"] {
        ctx.require(k);
    }
    let _ = seed;
    ctx.finish(
        "cases = constructor argument tuples from the finite lattice of DESIGN.md C12, enumerated completely (no randomness: the seed is not used); distinct+non-trivial = distinct quaternions normalised to a verified unit parallel result plus distinct out-of-range angles that were re-canonicalised",
        &[
            "an Err for bounds that are not plainly well-formed and in range is accepted (the SO2 constructor may clamp or reject out-of-range intervals); an Ok must store well-formed bounds and be usable",
            "when several arguments are wrong at once, any documented variant that names one of the actual faults is accepted",
            "SO3 sampling is only probed for radii >= 0.1 or < 1e-9 (rejection sampling cost grows as radius^-3)",
            "ZeroMagnitude is accepted for norms below 1e-9; congruence mod 2 pi is checked for |angle| <= 1e15",
        ],
        json!({"exhaustive": true}),
    )
}
