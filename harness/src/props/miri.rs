//! Small workloads meant to be executed under Miri (`cargo +nightly miri run -- miri-smoke ...`):
//! every planner x space family on tiny problems, compound layouts through the erased
//! (`dyn Any`) interface, API misuse sequences with unwinding. Any undefined behaviour makes
//! Miri abort the process; the harness only has to drive the code and keep its own oracles on.
use super::hist::{run_history, History, Op};
use crate::drv::Res;
use crate::spec::{Kit, ALL_WRAPS};
use crate::util::Sm;
use crate::with_kit;
use crate::world::{gen_params, gen_problem, gen_spec, GenOpts, GoalMode, Hostility, ALL_PLANNERS};
use oxmpl::base::space::{AnyStateSpace, StateSpace};

pub fn smoke(which: &str, shard: usize, nshards: usize) -> i32 {
    let mut ran = 0;
    let mut paths = 0;
    let mut panics = 0;
    let combos: Vec<(usize, usize)> = (0..6).flat_map(|w| (0..4).map(move |p| (w, p))).collect();
    for (ci, (w, p)) in combos.iter().enumerate() {
        if ci % nshards != shard {
            continue;
        }
        let mut r = Sm::derive(4242, &[ci as u64]);
        let wrap = ALL_WRAPS[*w];
        let planner = ALL_PLANNERS[*p];
        let spec = gen_spec(&mut r, wrap, &GenOpts { nonconvex: false, fracs: false, odd_weights: true, max_dim: 2 });
        if which == "c13" {
            // erased-interface operations on the compound-like spaces
            with_kit!(spec, K, kit => {
                if let Ok(sp) = kit.build() {
                    let mut rng = <rand_chacha::ChaCha8Rng as rand::SeedableRng>::seed_from_u64(ci as u64);
                    for _ in 0..40 {
                        if let Ok(smp) = sp.sample_uniform_dyn(&mut rng) {
                            if !sp.satisfies_bounds_dyn(&*smp) {
                                println!("MIRI-SMOKE MISMATCH sample out of bounds {}", spec.describe());
                                return 1;
                            }
                        }
                        let a = kit.unflat(&crate::world::rand_state(&mut r, &spec));
                        let b = kit.unflat(&crate::world::rand_state(&mut r, &spec));
                        let d1 = sp.distance(&a, &b);
                        let d2 = sp.distance_dyn(&a, &b);
                        let mut out = a.clone();
                        sp.interpolate_dyn(&a, &b, 0.3, &mut out);
                        let mut e = out.clone();
                        sp.enforce_bounds_dyn(&mut e);
                        let ok = sp.satisfies_bounds_dyn(&e);
                        // (Miri perturbs the last bits of some float intrinsics unless -Zmiri-deterministic-floats)
                        if (d1 - d2).abs() > 1e-9 * (1.0 + d1.abs()) || !ok {
                            println!("MIRI-SMOKE MISMATCH {} d={d1}/{d2} satisfies={ok}", spec.describe());
                            return 1;
                        }
                        ran += 1;
                    }
                }
            });
            continue;
        }
        let mut p1 = gen_problem(&mut r, &spec, Hostility::Plain);
        let p2 = gen_problem(&mut r, &spec, Hostility::InvalidStart);
        p1.goal.mode = GoalMode::Rng;
        p1.goal.radius *= 2.0;
        let mut params = gen_params(&mut r, &spec, planner, false);
        params.goal_bias = 0.3;
        let ops = vec![Op::Solve(1), Op::Setup(0), Op::Construct, Op::Solve(12), Op::SetPd(1), Op::Solve(3), Op::Setup(1), Op::Solve(3)];
        let h = History { problems: vec![p1, p2], params, prm_samples: 8, ops, uniform_fail_at: None, starts_override: None, script: None, prm_build_override: None };
        with_kit!(spec, K, kit => {
            if let Ok((_, recs)) = run_history::<K>(&kit, &h, true, 100_000) {
                ran += recs.len();
                paths += recs.iter().filter(|c| c.res.is_path()).count();
            }
            // a sampler fault: unwinding through the planner and the erased interface
            let mut hf = h.clone();
            hf.ops = vec![Op::Setup(0), Op::Construct, Op::Solve(6)];
            hf.uniform_fail_at = Some(2);
            if let Ok((_, recs)) = run_history::<K>(&kit, &hf, false, 100_000) {
                panics += recs.iter().filter(|c| matches!(c.res, Res::Panic { .. })).count();
                ran += recs.len();
            }
        });
    }
    println!("MIRI-SMOKE OK which={which} shard={shard}/{nshards} calls={ran} paths={paths} unwinds={panics}");
    0
}
