//! C06 solve honours its timeout and never claims an unreachable goal.
//! E1 deadline (virtual time, cost model), E2 soundness on infeasible-by-construction worlds,
//! E3 bounded progress (query budget, a logical-step verdict).
use crate::drv::{Drv, ErrKind, Res};
use crate::monitor::SampleMode;
use crate::refm::ref_lvs;
use crate::spec::{Kit, ALL_WRAPS};
use crate::util::{par_shards, Batch, Ctx, Sm, Tier};
use crate::with_kit;
use crate::world::{gen_params, gen_problem, gen_spec, GenOpts, Hostility, PKind, PParams, Problem, ALL_PLANNERS};
use serde_json::{json, Value};

const TICK: u64 = 1_000; // ns per validity query / sampler call in the cost model

#[derive(Clone, Debug)]
pub struct Case {
    pub problem: Problem,
    pub params: PParams,
    /// solve timeout in ticks (+ half a tick so that no comparison sits on a boundary)
    pub t_ticks: u64,
    /// PRM build time in ticks
    pub build_ticks: u64,
    pub budget: u64,
    pub real_time_ms: Option<u64>,
    /// the same planner and problem object were first used in an obstacle-free environment
    /// (setup + solve) before the environment under test was installed by a second setup
    pub warm_start: bool,
    /// uniform samples come from this list (cyclic) - an alphabet with duplicates, so that
    /// zero-length edges and equal costs occur - instead of the planner's generator
    pub script: Option<Vec<Vec<f64>>>,
    /// virtual nanoseconds per tick (1 000 by default; 0.37 s in some cases, so that time
    /// limits of seconds and minutes occur as well as microseconds)
    pub tick_ns: u64,
}
impl Case {
    pub fn to_json(&self) -> Value {
        json!({"kind":"c06","problem":self.problem.to_json(),"params":self.params.to_json(),"t_ticks":self.t_ticks,"build_ticks":self.build_ticks,"budget":self.budget,"real_time_ms":self.real_time_ms,"warm_start":self.warm_start,"tick_ns":self.tick_ns,
               "script":self.script.as_ref().map(|l| l.iter().map(|s| crate::util::fjs(s)).collect::<Vec<_>>())})
    }
    pub fn from_json(v: &Value) -> Case {
        Case {
            problem: Problem::from_json(&v["problem"]),
            params: PParams::from_json(&v["params"]),
            t_ticks: v["t_ticks"].as_u64().unwrap_or(0),
            build_ticks: v["build_ticks"].as_u64().unwrap_or(10),
            budget: v["budget"].as_u64().unwrap_or(4_000_000),
            real_time_ms: v["real_time_ms"].as_u64(),
            warm_start: v["warm_start"].as_bool().unwrap_or(false),
            script: v["script"].as_array().map(|a| a.iter().map(crate::util::parse_fs).collect()),
            tick_ns: v["tick_ns"].as_u64().unwrap_or(TICK),
        }
    }
}

pub fn make_case(r: &mut Sm, idx: usize) -> Case {
    let wrap = ALL_WRAPS[idx % 6];
    let planner = ALL_PLANNERS[(idx / 6) % 4];
    let opts = GenOpts { nonconvex: false, fracs: true, odd_weights: true, max_dim: 3 };
    let mut spec = gen_spec(r, wrap, &opts);
    // documented extremes of the resolution fraction: <= 0 is stored as 0, > 1 and NaN as 1
    let extreme = r.below(240);
    if extreme < 8 {
        let f = match extreme {
            0 => 0.0,
            1 => -1.0,
            2..=4 => f64::NAN,
            _ => 5.0,
        };
        for c in spec.comps.iter_mut() {
            c.frac = Some(f);
        }
    }
    let host = *r.pick(&[Hostility::Plain, Hostility::Free, Hostility::SealedGoal, Hostility::SealedGoal, Hostility::SealedStart, Hostility::GoalInvalid, Hostility::GoalInvalid]);
    let problem = gen_problem(r, &spec, host);
    let mut params = gen_params(r, &spec, planner, false);
    let lvs = ref_lvs(&spec);
    // keep the legitimate cost of one iteration small: (neighbours + 2) motion checks
    if lvs > 0.0 {
        let per_motion = (params.step_limit().min(spec.diameter()) / (0.1 * lvs)).ceil().max(1.0);
        if per_motion > 400.0 {
            let k = 400.0 / per_motion;
            params.max_distance *= k;
            params.search_radius *= k;
            params.connection_radius *= k;
        }
    }
    let t_ticks = match r.below(8) {
        0 => 0,
        1 => 1,
        2 => r.below(20) as u64,
        _ => r.log_range(5.0, 5000.0) as u64,
    };
    let build_ticks = match r.below(5) {
        0 => r.below(4) as u64,
        _ => r.log_range(2.0, 600.0) as u64,
    };
    let warm_start = r.bool(0.25);
    let script = if planner != PKind::Prm && lvs > 0.0 && r.bool(0.12) {
        let al = crate::world::alphabet(r, &problem, 3);
        let len = 8 + r.below(40);
        Some((0..len).map(|_| al[r.below(al.len())].clone()).collect::<Vec<_>>())
    } else {
        None
    };
    Case { problem, params, t_ticks, build_ticks, budget: 1_000_000, real_time_ms: None, warm_start, script, tick_ns: if r.bool(0.12) { 370_000_000 } else { TICK } }
}

fn run_case<K: Kit>(ctx: &Ctx, b: &mut Batch, kit: &K, case: &Case) {
    b.evaluations += 1;
    let tick = case.tick_ns.max(1);
    if tick != TICK {
        b.count("cases_with_second_scale_ticks", 1);
    }
    crate::watch::set_case(case.to_json());
    let pname = case.params.kind.name();
    let replay = || {
        let mut v = case.to_json();
        v["property"] = json!("C06");
        v
    };
    let lvs = ref_lvs(&case.problem.spec);
    let lvs_tag = if lvs == 0.0 { ":lvs=0" } else { "" };
    oxmpl::verif::arm(0);
    let build_secs = (case.build_ticks as f64 + 0.5) * tick as f64 * 1e-9;
    let Ok(mut d) = Drv::new(kit, &case.params, build_secs) else { return };
    {
        let mut l = d.log.borrow_mut();
        l.keep_events = false;
        l.budget = case.budget;
        l.tick_sample = tick;
        l.tick_valid = tick;
    }
    // sealed worlds, now and then: the start list has a second entry - an *invalid* state in the
    // sealing obstacle, marginally inside its face towards the goal. Nothing valid can start
    // there, so the world stays infeasible whatever a planner makes of the extra entry.
    let mut case_owned = case.clone();
    if case.problem.infeasible.as_deref().is_some_and(|w| w.starts_with("Sealed")) && case.problem.extra_starts.is_empty() && (case.t_ticks + case.build_ticks) % 4 == 0 {
        if let Ok(ev) = crate::monitor::WorldEval::<K>::new(kit, &case.problem.world) {
            use oxmpl::base::space::StateSpace;
            let (s, g) = (kit.unflat(&case.problem.start), kit.unflat(&case.problem.goal.centre));
            let at = |t: f64| {
                let mut o = s.clone();
                ev.sp.interpolate(&s, &g, t, &mut o);
                o
            };
            // from the goal backwards: the first invalid point, then bisect towards the goal
            let mut hit = None;
            for k in (0..=128).rev() {
                let t = k as f64 / 128.0;
                let q = at(t);
                if !ev.valid(&q, &K::flat(&q)) {
                    hit = Some(t);
                    break;
                }
            }
            if let Some(tb) = hit {
                if tb < 1.0 {
                    let (mut bad, mut good) = (tb, tb + 1.0 / 128.0);
                    for _ in 0..30 {
                        let mid = 0.5 * (bad + good);
                        let q = at(mid);
                        if ev.valid(&q, &K::flat(&q)) { good = mid } else { bad = mid }
                    }
                    let q = at(bad);
                    if !ev.valid(&q, &K::flat(&q)) {
                        case_owned.problem.extra_starts.push(K::flat(&q));
                        b.count("sealed_worlds_with_an_invalid_extra_start", 1);
                    }
                }
            }
        }
    }
    let case = &case_owned;
    let mode = match &case.script {
        Some(s) if !s.is_empty() => {
            b.count("scripted_cases", 1);
            SampleMode::Scripted(s.clone())
        }
        _ => SampleMode::PlannerRng,
    };
    let Ok(mut inst) = d.install(&case.problem, mode) else { return };
    if case.warm_start && lvs > 0.0 {
        // first life: the same problem object in an empty environment
        let mut free = case.problem.clone();
        free.world = crate::world::World::default();
        if let Ok(inst0) = d.reinstall(&inst, &free) {
            if d.setup(inst0) == Res::Done {
                if case.params.kind == PKind::Prm {
                    let _ = d.construct_roadmap(true);
                }
                let _ = d.solve_ns(400 * tick, true);
                b.count("warm_started_cases", 1);
            }
        }
        // second life: the environment under test (same Arc, new checker)
        if let Ok(i2) = d.reinstall(&inst, &case.problem) {
            inst = i2;
        }
    }
    let r0 = d.setup(inst);
    if r0 != Res::Done {
        if r0 == Res::Budget {
            ctx.violate(&format!("query-budget-exhausted{lvs_tag}:{pname}:setup"), format!("setup made more than {} validity queries", case.budget), replay());
        }
        return;
    }
    let check_deadline = |d: &Drv<K>, what: &str, t_ns: u64| {
        let l = d.log.borrow();
        if l.samples_in_call > 0 && d.last_call_clock_reads == 0 {
            ctx.inconclusive(format!("{pname}.{what} drew {} samples without reading the shimmed clock (hook bypassed?)", l.samples_in_call));
            return;
        }
        if l.late_samples > 0 {
            ctx.violate(
                &format!("iteration-started-after-deadline:{pname}:{what}"),
                format!("{} sampler calls began after the deadline (first clock read + {} ns); the latest by {} ns = {} ticks", l.late_samples, t_ns, l.worst_late_ns, l.worst_late_ns / tick),
                replay(),
            );
        }
        // work done before the planner starts its clock must be bounded (tree planners)
        if what == "solve" && case.params.kind != PKind::Prm {
            if let Some(fr) = d.last_call_first_read {
                let pre = fr.saturating_sub(d.last_call_v0);
                // "T plus the cost of one planning iteration": work done before the planner starts
                // its clock is charged against that one-iteration allowance (an iteration costs up
                // to a few thousand queries in these scenarios)
                if pre > 4000 * tick {
                    ctx.violate(&format!("unbounded-work-before-clock-start:{pname}"), format!("{} ticks of work before the first clock read", pre / tick), replay());
                }
            }
        }
    };
    if case.params.kind == PKind::Prm {
        let rb = d.construct_roadmap(true);
        b.count("prm_builds", 1);
        match rb {
            Res::Budget if d.log.borrow().late_samples > 0 => {
                let l = d.log.borrow();
                ctx.violate(&format!("iteration-started-after-deadline:{pname}:construct_roadmap"), format!("{} sampler calls began after the build deadline and the call was still running; the latest by {} ticks", l.late_samples, l.worst_late_ns / tick), replay());
                return;
            }
            Res::Budget => {
                ctx.violate(&format!("query-budget-exhausted{lvs_tag}:{pname}:construct_roadmap"), format!("construct_roadmap made more than {} validity queries (build time {} ticks)", case.budget, case.build_ticks), replay());
                return;
            }
            Res::Done => check_deadline(&d, "construct_roadmap", (build_secs * 1e9) as u64),
            _ => return,
        }
    }
    let t_ns = case.t_ticks * tick + tick / 2;
    let res = d.solve_ns(t_ns, true);
    b.count(&format!("solves[{pname}]"), 1);
    let cls = match &res {
        Res::Path(_) => "path",
        Res::Err(ErrKind::Timeout) => "timeout",
        Res::Err(ErrKind::NoSolutionFound) => "nosolution",
        Res::Err(_) => "othererr",
        Res::Panic { .. } => "panic",
        Res::Budget => "budget",
        Res::Done => "done",
    };
    b.count(&format!("result[{cls}]"), 1);
    if case.t_ticks == 0 {
        b.count("solves_with_zero_timeout", 1);
    }
    match &res {
        Res::Budget if d.log.borrow().late_samples > 0 => {
            let l = d.log.borrow();
            ctx.violate(&format!("iteration-started-after-deadline:{pname}:solve"), format!("{} sampler calls began after the deadline (first clock read + {} ns) and the call was still running; the latest by {} ticks", l.late_samples, t_ns, l.worst_late_ns / tick), replay());
            return;
        }
        Res::Budget => {
            ctx.violate(&format!("query-budget-exhausted{lvs_tag}:{pname}:solve"), format!("solve({} ticks) made more than {} validity queries without returning (longest valid segment {lvs})", case.t_ticks, case.budget), replay());
            return;
        }
        Res::Panic { .. } => return,
        _ => {}
    }
    check_deadline(&d, "solve", t_ns);
    {
        let l = d.log.borrow();
        b.count("iterations_observed", l.samples_in_call);
        b.max("max_queries_in_one_solve", l.n_valid_call as f64);
    }
    if let Some(why) = &case.problem.infeasible {
        b.count("infeasible_worlds", 1);
        b.count(&format!("infeasible[{}]", why.split(':').next().unwrap_or("").split(' ').next().unwrap_or("")), 1);
        if let Res::Path(p) = &res {
            let cls = if why.starts_with("goal region") { "goal-invalid" } else if why.starts_with("SealedGoal") { "sealed-goal" } else { "sealed-start" };
            ctx.violate(&format!("path-in-infeasible-world:{cls}:{pname}"), format!("{why}; solve returned a path of {} states ending at {:?}", p.len(), p.last()), replay());
        } else {
            b.distinct.insert(crate::util::hash_str(crate::util::hash_f64s(crate::util::FNV0, &case.problem.start), &format!("{pname}{cls}{}", case.t_ticks)));
        }
    } else if let Res::Path(p) = &res {
        if p.len() >= 3 {
            b.distinct.insert(super::paths::hash_path(p));
        }
    }
    if b.samples.len() < 2 {
        b.sample(json!({"planner":pname,"space":case.problem.spec.describe(),"world":case.problem.tags,"infeasible":case.problem.infeasible,"timeout_ticks":case.t_ticks,"result":res.short(),"iterations":d.log.borrow().samples_in_call,"validity_queries":d.log.borrow().n_valid_call}));
    }
}

/// A few real-time runs (clock disarmed): only ever yields "inconclusive", never a violation.
fn real_time_sanity(ctx: &Ctx, seed: u64) {
    for i in 0..4usize {
        let mut r = Sm::derive(seed, &[606, i as u64]);
        let spec = gen_spec(&mut r, ALL_WRAPS[i % 6], &GenOpts { nonconvex: false, fracs: false, odd_weights: false, max_dim: 2 });
        let problem = gen_problem(&mut r, &spec, Hostility::GoalInvalid);
        if problem.infeasible.is_none() {
            continue;
        }
        let params = gen_params(&mut r, &spec, [PKind::Rrt, PKind::Star, PKind::Rrt, PKind::Star][i], false);
        with_kit!(spec, K, kit => {
            oxmpl::verif::disarm();
            let Ok(mut d) = Drv::new(&kit, &params, 0.01) else { continue };
            d.log.borrow_mut().keep_events = false;
            d.log.borrow_mut().budget = u64::MAX;
            let Ok(inst) = d.install(&problem, SampleMode::PlannerRng) else { continue };
            if d.setup(inst) != Res::Done { continue; }
            let t0 = std::time::Instant::now();
            let res = d.solve_ns(20_000_000, false);
            let wall = t0.elapsed().as_secs_f64();
            ctx.count("real_time_runs", 1);
            if wall > 5.0 {
                // wall-clock observations are never a verdict (loaded machine): recorded only
                ctx.note(&format!("real-time solve(20 ms) took {wall:.2} s (result {}); not judged", res.short()));
            }
            if res.is_path() {
                ctx.violate("path-in-infeasible-world:goal-invalid:real-time", format!("{}", res.short()), json!({"kind":"c06-real","problem":problem.to_json(),"params":params.to_json()}));
            }
        });
    }
    oxmpl::verif::arm(0);
}

pub fn run(tier: Tier, seed: u64) -> i32 {
    let ctx = Ctx::new("C06", tier, seed, "exploration");
    let n = tier.pick(12_000, 1_000_000);
    let shards = 64;
    par_shards(shards, crate::util::n_threads(), |sh| {
        let mut b = Batch::default();
        let mut i = sh;
        while i < n {
            let mut r = Sm::derive(seed, &[6, i as u64]);
            let case = make_case(&mut r, i);
            with_kit!(case.problem.spec, K, kit => run_case::<K>(&ctx, &mut b, &kit, &case));
            i += shards;
        }
        ctx.merge(b);
    });
    real_time_sanity(&ctx, seed);
    for p in ALL_PLANNERS {
        ctx.require(&format!("solves[{}]", p.name()));
    }
    for k in ["warm_started_cases", "sealed_worlds_with_an_invalid_extra_start", "infeasible_worlds", "result[timeout]", "result[path]", "solves_with_zero_timeout", "prm_builds", "iterations_observed"] {
        ctx.require(k);
    }
    ctx.finish(
        "cases = solve / construct_roadmap calls under the virtual clock with the cost model (1 tick per validity query and per sampler call), time limits 0..5000 ticks, feasible worlds and worlds that are infeasible by construction (goal sealed off by an invalid shell >= 2 lvs thick in the space's own metric, start sealed in, goal region entirely invalid), resolution fractions incl. <= 0 / NaN / > 1; E1: no sampler call (= start of an iteration) begins after first-clock-read + T; E2: no path in an infeasible world; E3: no call makes more than the query budget (>= 10x what any terminating execution of that scenario can make); distinct+non-trivial = distinct returned paths (>= 3 states) plus distinct (start, planner, outcome, T) tuples on infeasible worlds",
        &[
            "liveness is restated as bounded progress: the verdict is taken on logical steps (validity queries), never on wall-clock time",
            "the deadline is measured from the planner's first clock read; work done before it is charged against the one-iteration allowance (at most 4000 ticks)",
            "infeasibility relies on the triangle inequality of the space's metric (C09) and on weight-0 components being invisible to it",
            "PRM::solve does its start-connection work before starting its clock; E1 has no sampler events to judge there",
        ],
        json!({"cases": n, "tick_ns": TICK, "query_budget": 1_000_000}),
    )
}

pub fn replay(v: &Value, file: &str) -> i32 {
    let case = Case::from_json(v);
    let mut ctx = Ctx::new("C06", Tier::Quick, 0, "exploration");
    ctx.replay_of = Some(file.to_string());
    let mut b = Batch::default();
    with_kit!(case.problem.spec, K, kit => run_case::<K>(&ctx, &mut b, &kit, &case));
    ctx.merge(b);
    ctx.finish("replay of one recorded C06 case", &[], json!({"replay": true}))
}
