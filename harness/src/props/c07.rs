//! C07 Seeded planning is reproducible: two instances, same seed, same calls => same results.
use super::hist::{run_history, run_history_opts, CallRec, History, Op};
use crate::drv::{Drv, Res, Snap};
use crate::monitor::SampleMode;
use crate::spec::{Kit, ALL_WRAPS};
use crate::util::{par_shards, Batch, Ctx, Sm, Tier};
use crate::with_kit;
use crate::world::{gen_params, gen_problem, gen_spec, GenOpts, GoalMode, Hostility, PKind, ALL_PLANNERS};
use serde_json::{json, Value};

pub fn make_history(r: &mut Sm, idx: usize) -> History {
    let wrap = ALL_WRAPS[idx % 6];
    let planner = ALL_PLANNERS[(idx / 6) % 4];
    let mut spec = gen_spec(r, wrap, &GenOpts { nonconvex: false, fracs: true, odd_weights: true, max_dim: 3 });
    // now and then a narrow rotation cone (below 0.1 rad): expensive to sample by rejection, which
    // is exactly why implementations grow special paths for it
    if wrap == crate::spec::Wrap::So3 && r.bool(0.04) {
        spec.comps[0].kind = crate::spec::CK::So3 { bounds: Some((r.quat(), 0.09)) };
    }
    let hosts = [Hostility::Plain, Hostility::Free, Hostility::GoalOverlap, Hostility::GoalInvalid];
    let h1 = *r.pick(&hosts);
    let h2 = *r.pick(&hosts);
    let mut p1 = gen_problem(r, &spec, h1);
    let mut p2 = gen_problem(r, &spec, h2);
    // goal samplers that consume the planner's generator
    if r.bool(0.7) {
        p1.goal.mode = GoalMode::Rng;
    }
    if r.bool(0.7) {
        p2.goal.mode = GoalMode::Rng;
    }
    if planner == PKind::Prm {
        p1.goal.radius *= 2.0;
        p2.goal.radius *= 2.0;
    }
    let mut params = gen_params(r, &spec, planner, false);
    if planner != PKind::Prm && r.bool(0.5) {
        params.goal_bias = *r.pick(&[0.05, 0.2, 0.5]);
    }
    let n = |r: &mut Sm| 5 + r.below(250) as u64;
    let ops = if planner == PKind::Prm {
        match r.below(4) {
            0 => vec![Op::Setup(0), Op::Construct, Op::Solve(10)],
            1 => vec![Op::Setup(0), Op::Construct, Op::Solve(10), Op::SetPd(1), Op::Solve(10), Op::Construct, Op::Solve(10)],
            2 => vec![Op::Setup(0), Op::Construct, Op::Solve(10), Op::Setup(1), Op::Construct, Op::Solve(10)],
            _ => vec![Op::Solve(5), Op::Setup(0), Op::Solve(5), Op::Construct, Op::Construct, Op::Solve(10), Op::Setup(0), Op::Construct, Op::Solve(10)],
        }
    } else {
        match r.below(7) {
            0 => vec![Op::Setup(0), Op::Solve(n(r))],
            1 => vec![Op::Setup(0), Op::Solve(n(r)), Op::Solve(n(r))],
            2 => vec![Op::Setup(0), Op::Solve(n(r)), Op::Setup(1), Op::Solve(n(r))],
            3 => vec![Op::Solve(3), Op::Setup(0), Op::Solve(n(r))],
            4 => vec![Op::Setup(0), Op::Solve(n(r)), Op::Setup(0), Op::Solve(n(r)), Op::Solve(n(r))],
            5 => vec![Op::Setup(0), Op::Solve(n(r)), Op::ScaleParams(0.5), Op::SetupMixed(0, 1), Op::Solve(n(r)), Op::Solve(n(r))],
            _ => vec![Op::Setup(0), Op::Solve(n(r)), Op::Solve(n(r)), Op::Solve(n(r)), Op::Setup(1), Op::Solve(n(r))],
        }
    };
    // scripted samples over an alphabet with duplicates: exact ties (equal costs, zero-length
    // edges) make any order-dependence of the implementation visible
    let script = if r.bool(0.3) {
        let al = crate::world::alphabet(r, &p1, 3);
        let len = 8 + r.below(40);
        Some((0..len).map(|_| al[r.below(al.len())].clone()).collect::<Vec<_>>())
    } else {
        None
    };
    // a first query whose start already satisfies the goal (answered at once, or almost), then
    // an ordinary problem on the same planner object
    let mut ops = ops;
    if planner != PKind::Prm && r.bool(0.08) {
        p1.put_goal_on_start();
        ops = vec![Op::Setup(0), Op::Solve(n(r)), Op::Setup(1), Op::Solve(n(r)), Op::Solve(n(r))];
    }
    // another query towards the same goal: the second problem shares the first one's goal
    // (the history runner then hands over the very same goal and space objects)
    if r.bool(0.25) {
        p2.goal = p1.goal.clone();
        p2.infeasible = None;
        p2.tags.push("shares-the-goal-object-of-problem-0".into());
    }
    History { problems: vec![p1, p2], params, prm_samples: 5 + r.below(80) as u64, ops, uniform_fail_at: None, starts_override: None, script, prm_build_override: None }
}

fn first_difference(a: &[CallRec], b: &[CallRec]) -> Option<(usize, String)> {
    for i in 0..a.len().max(b.len()) {
        match (a.get(i), b.get(i)) {
            (Some(x), Some(y)) => {
                if x.res != y.res {
                    return Some((i, format!("call {i} {}: {} vs {}", x.op.short(), x.res.short(), y.res.short())));
                }
                if x.snap_hash != y.snap_hash {
                    return Some((i, format!("call {i} {}: same result ({}) but different tree / roadmap snapshots (sizes {} / {})", x.op.short(), x.res.short(), x.snap_size, y.snap_size)));
                }
            }
            _ => return Some((i, "histories have different lengths".into())),
        }
    }
    None
}

fn run_case<K: Kit>(ctx: &Ctx, b: &mut Batch, kit: &K, h: &History) {
    b.evaluations += 1;
    let Ok((_, r1)) = run_history::<K>(kit, h, false, 3_000_000) else { return };
    let Ok((_, r2)) = run_history::<K>(kit, h, false, 3_000_000) else { return };
    let pname = h.params.kind.name();
    if r1.iter().any(|c| matches!(c.res, Res::Panic { .. } | Res::Budget)) {
        b.count("histories_with_panic_or_budget", 1);
        return;
    }
    b.count(&format!("histories[{pname}]"), 1);
    b.count("solve_calls_compared", r1.iter().filter(|c| matches!(c.op, Op::Solve(_))).count() as u64);
    for c in &r1 {
        if let Res::Path(p) = &c.res {
            b.count("paths_compared", 1);
            if p.len() >= 3 {
                b.distinct.insert(super::paths::hash_path(p));
            }
        }
    }
    if let Some((i, what)) = first_difference(&r1, &r2) {
        // which solve of the instance is the first to differ?
        let k = r1[..=i.min(r1.len() - 1)].iter().filter(|c| matches!(c.op, Op::Solve(_) | Op::Construct)).count();
        let after_resetup = r1[..=i.min(r1.len() - 1)].iter().filter(|c| matches!(c.op, Op::Setup(_) | Op::SetupMixed(..))).count() > 1;
        let phase = if matches!(r1[i.min(r1.len() - 1)].op, Op::Setup(_) | Op::SetupMixed(..)) {
            "setup"
        } else if k <= 1 {
            "first-planning-call"
        } else if after_resetup {
            "after-re-setup"
        } else {
            "later-planning-call"
        };
        let mut v = h.to_json();
        v["property"] = json!("C07");
        ctx.violate(&format!("same-seed-different-result:{pname}:{phase}"), format!("{}: {what}", h.describe()), v);
    }
    if b.samples.len() < 2 && r1.iter().any(|c| c.res.is_path()) {
        b.sample(json!({"history": h.describe(), "space": h.problems[0].spec.describe(), "seed": h.params.seed, "results": r1.iter().map(|c| c.res.short()).collect::<Vec<_>>() }));
    }
}

/// Callback latency: the same history with a validity checker that answers at once and with one
/// that takes 1 ms of real time for the first 40 queries of every public call (setup included).
/// How long the user's callbacks take is not among the things results may depend on.
fn latency_case<K: Kit>(ctx: &Ctx, b: &mut Batch, kit: &K, h: &History) {
    b.evaluations += 1;
    let Ok((_, r1)) = run_history::<K>(kit, h, false, 3_000_000) else { return };
    let Ok((_, r2)) = run_history_opts::<K>(kit, h, false, 3_000_000, Some((1_000, 40))) else { return };
    if r1.iter().chain(r2.iter()).any(|c| matches!(c.res, Res::Panic { .. } | Res::Budget)) {
        return;
    }
    let pname = h.params.kind.name();
    b.count("latency_pairs", 1);
    b.count(&format!("latency_pairs[{pname}]"), 1);
    if let Some((_, what)) = first_difference(&r1, &r2) {
        let mut v = h.to_json();
        v["property"] = json!("C07");
        v["slow_validity_checker_us"] = json!(1000);
        ctx.violate(&format!("result-depends-on-callback-latency:{pname}"), format!("{}: {what}", h.describe()), v);
    }
}

/// Prefix consistency: the tree after N iterations is a prefix of the tree after N' > N.
fn prefix_case<K: Kit>(ctx: &Ctx, b: &mut Batch, kit: &K, h: &History, n1: u64, n2: u64) {
    let mk = |n: u64| {
        let mut hh = h.clone();
        hh.ops = vec![Op::Setup(0), Op::Solve(n)];
        hh
    };
    let (ha, hb) = (mk(n1), mk(n2));
    let (Ok((da, ra)), Ok((db, rb))) = (run_history::<K>(kit, &ha, false, 3_000_000), run_history::<K>(kit, &hb, false, 3_000_000)) else { return };
    if ra.len() < 2 || rb.len() < 2 {
        return;
    }
    b.evaluations += 1;
    b.count("prefix_pairs", 1);
    let pname = h.params.kind.name();
    let mut v = h.to_json();
    v["property"] = json!("C07");
    v["prefix"] = json!([n1, n2]);
    match (&ra[1].res, &rb[1].res) {
        (Res::Path(p), other) => {
            // the shorter budget already succeeded: the longer one must return the same path
            if &Res::Path(p.clone()) != other {
                ctx.violate(&format!("more-time-different-decisions:{pname}"), format!("solve({n1}) found a path, solve({n2}) returned {}", other.short()), v);
            }
        }
        (_, _) => {
            if let Some(what) = not_a_prefix(&da.snapshot(), &db.snapshot(), h.params.kind == PKind::Star) {
                ctx.violate(&format!("more-time-different-decisions:{pname}"), format!("after {n1} vs {n2} iterations: {what}"), v.clone());
            }
        }
    }
}

/// Is snapshot `a` (fewer iterations) a prefix of snapshot `b` (more iterations, same seed)?
/// Node states always; parent links too where they are final once set (RRT, RRT-Connect - RRT*
/// may legitimately re-parent earlier nodes later); roadmap edges among the first |a| milestones
/// (they are created when the later of the two milestones is added, so they are final).
fn not_a_prefix(a: &Snap, b: &Snap, rewires: bool) -> Option<String> {
    let bits = |s: &Vec<f64>| s.iter().map(|x| x.to_bits()).collect::<Vec<u64>>();
    let tree = |ta: &Vec<crate::drv::TNode>, tb: &Vec<crate::drv::TNode>, name: &str| -> Option<String> {
        if ta.len() > tb.len() {
            return Some(format!("{name}: {} nodes, but only {} after more iterations", ta.len(), tb.len()));
        }
        for (i, (x, y)) in ta.iter().zip(tb.iter()).enumerate() {
            if bits(&x.s) != bits(&y.s) {
                return Some(format!("{name}: node {i} is {:?} in the shorter run and {:?} in the longer one", x.s, y.s));
            }
            if !rewires && x.parent != y.parent {
                return Some(format!("{name}: node {i} has parent {:?} in the shorter run and {:?} in the longer one", x.parent, y.parent));
            }
        }
        None
    };
    match (a, b) {
        (Snap::Tree(x), Snap::Tree(y)) => tree(x, y, "tree"),
        (Snap::Trees(x1, x2), Snap::Trees(y1, y2)) => tree(x1, y1, "start tree").or_else(|| tree(x2, y2, "goal tree")),
        (Snap::Roadmap(x), Snap::Roadmap(y)) => {
            if x.len() > y.len() {
                return Some(format!("roadmap: {} milestones, but only {} after more samples", x.len(), y.len()));
            }
            for (i, ((sx, ex), (sy, ey))) in x.iter().zip(y.iter()).enumerate() {
                if bits(sx) != bits(sy) {
                    return Some(format!("roadmap: milestone {i} differs"));
                }
                let mut a: Vec<usize> = ex.iter().copied().filter(|j| *j < x.len()).collect();
                let mut c: Vec<usize> = ey.iter().copied().filter(|j| *j < x.len()).collect();
                a.sort_unstable();
                c.sort_unstable();
                if a != c {
                    return Some(format!("roadmap: milestone {i} is linked to {a:?} after {} samples but to {c:?} (among the same milestones) after more samples", x.len()));
                }
            }
            None
        }
        _ => Some("snapshots of different kinds".into()),
    }
}

/// One planning call (tree planners: `solve`; PRM: `construct_roadmap`) of exactly `n`
/// iterations on a fresh instance, under a pacing of the virtual clock.
fn paced<K: Kit>(kit: &K, h: &History, n: u64, plan: Option<Vec<u64>>) -> Option<(Res, Snap)> {
    crate::watch::set_case(h.to_json());
    oxmpl::verif::arm(0);
    let mut d = Drv::<K>::new(kit, &h.params, (n as f64 - 0.5) * 1e-3).ok()?;
    {
        let mut l = d.log.borrow_mut();
        l.keep_events = false;
        l.budget = 3_000_000;
        l.tick_sample = crate::drv::MS;
        l.tick_valid = 0;
    }
    let mode = match &h.script {
        Some(s) if !s.is_empty() => SampleMode::Scripted(s.clone()),
        _ => SampleMode::PlannerRng,
    };
    let inst = d.install(&h.problems[0], mode).ok()?;
    if d.setup(inst) != Res::Done {
        return None;
    }
    d.pending_tick_plan = plan;
    let res = if h.params.kind == PKind::Prm { d.construct_roadmap(true) } else { d.solve_iters(n) };
    Some((res, d.snapshot()))
}

/// "Wall-clock time may only affect how many iterations complete, never which decisions are
/// taken": the same seed, the same number of iterations, but a different distribution of the
/// elapsed time over the iterations (uniform / most of the budget gone after the first sample /
/// most of it still left before the last one) must give the same result and the same tree or
/// roadmap, links and costs included. PRM roadmaps built from n1 < n2 samples must agree on
/// the first n1 milestones and the links among them.
fn pace_case<K: Kit>(ctx: &Ctx, b: &mut Batch, kit: &K, h: &History, r: &mut Sm) {
    let n = 4 + r.below(150) as u64;
    let pname = h.params.kind.name();
    let Some((ra, sa)) = paced::<K>(kit, h, n, None) else { return };
    if matches!(ra, Res::Panic { .. } | Res::Budget) {
        return;
    }
    let front = if r.bool(0.5) { Some(*r.pick(&[0.55, 0.7, 0.9])) } else { None };
    let Some((rb, sb)) = paced::<K>(kit, h, n, Some(Drv::<K>::pace_plan(n, front))) else { return };
    b.evaluations += 1;
    b.count("pacing_pairs", 1);
    b.count(&format!("pacing_pairs[{pname}]"), 1);
    let mut v = h.to_json();
    v["property"] = json!("C07");
    v["pace"] = json!({"n": n, "front": front});
    if ra != rb {
        ctx.violate(&format!("clock-pacing-changes-decisions:{pname}"), format!("{n} iterations, uniform clock: {}; {} clock: {}", ra.short(), if front.is_some() { "front-loaded" } else { "back-loaded" }, rb.short()), v);
    } else if sa != sb {
        ctx.violate(&format!("clock-pacing-changes-decisions:{pname}"), format!("{n} iterations give the same result ({}) but a different tree / roadmap (sizes {} / {}) when the elapsed time is distributed differently over the iterations", ra.short(), sa.size(), sb.size()), v);
    }
    if h.params.kind == PKind::Prm {
        let n2 = n + 1 + r.below(60) as u64;
        if let Some((_, s2)) = paced::<K>(kit, h, n2, None) {
            b.count("roadmap_prefix_pairs", 1);
            if let Some(what) = not_a_prefix(&sa, &s2, false) {
                let mut v = h.to_json();
                v["property"] = json!("C07");
                v["pace"] = json!({"n": n, "n2": n2});
                ctx.violate("more-time-different-decisions:PRM", format!("roadmaps from {n} and {n2} samples: {what}"), v);
            }
        }
    }
}

/// Successful paths must not depend on whether time is virtual or real.
fn real_vs_virtual(ctx: &Ctx, seed: u64, n: usize) {
    for i in 0..n {
        let mut r = Sm::derive(seed, &[707, i as u64]);
        let wrap = ALL_WRAPS[i % 6];
        let planner = [PKind::Rrt, PKind::Connect, PKind::Star][i % 3];
        let spec = gen_spec(&mut r, wrap, &GenOpts { nonconvex: false, fracs: false, odd_weights: false, max_dim: 2 });
        let mut problem = gen_problem(&mut r, &spec, Hostility::Free);
        problem.goal.radius *= 1.5;
        let mut params = gen_params(&mut r, &spec, planner, false);
        params.goal_bias = 0.2;
        with_kit!(spec, K, kit => {
            let run = |virt: bool| -> Option<Res> {
                oxmpl::verif::arm(0);
                let mut d = Drv::<K>::new(&kit, &params, 0.0).ok()?;
                d.log.borrow_mut().keep_events = false;
                d.log.borrow_mut().budget = u64::MAX;
                let inst = d.install(&problem, SampleMode::PlannerRng).ok()?;
                if d.setup(inst) != Res::Done { return None; }
                Some(if virt { d.solve_iters(200_000) } else { d.solve_ns(3_000_000_000, false) })
            };
            let (rv, rr) = (run(true), run(false));
            oxmpl::verif::arm(0);
            if let (Some(rv), Some(rr)) = (rv, rr) {
                ctx.count("real_vs_virtual_runs", 1);
                match (&rv, &rr) {
                    (Res::Path(_), Res::Path(_)) => {
                        ctx.count("real_vs_virtual_paths_compared", 1);
                        if rv != rr {
                            ctx.violate(&format!("real-time-differs-from-virtual-time:{}", planner.name()), format!("{} vs {}", rv.short(), rr.short()), json!({"kind":"c07-real","problem":problem.to_json(),"params":params.to_json()}));
                        }
                    }
                    _ => ctx.note(&format!("real-vs-virtual run {i}: {} / {} (not comparable)", rv.short(), rr.short())),
                }
            }
        });
    }
}

pub fn run(tier: Tier, seed: u64) -> i32 {
    let ctx = Ctx::new("C07", tier, seed, "exploration");
    let n = tier.pick(6_000, 400_000);
    let shards = 64;
    par_shards(shards, crate::util::n_threads(), |sh| {
        let mut b = Batch::default();
        let mut i = sh;
        while i < n {
            let mut r = Sm::derive(seed, &[7, i as u64]);
            let h = make_history(&mut r, i);
            with_kit!(h.problems[0].spec, K, kit => {
                run_case::<K>(&ctx, &mut b, &kit, &h);
                if i % 4 == 0 {
                    let n1 = 3 + r.below(60) as u64;
                    let n2 = n1 + 1 + r.below(120) as u64;
                    prefix_case::<K>(&ctx, &mut b, &kit, &h, n1, n2);
                }
                if i % 4 == 1 {
                    pace_case::<K>(&ctx, &mut b, &kit, &h, &mut r);
                }
                if (i / 24) % 25 == 1 {
                    latency_case::<K>(&ctx, &mut b, &kit, &h);
                }
            });
            i += shards;
        }
        ctx.merge(b);
    });
    real_vs_virtual(&ctx, seed, tier.pick(6, 24));
    for p in ALL_PLANNERS {
        ctx.require(&format!("histories[{}]", p.name()));
    }
    // real-vs-virtual comparisons depend on the wall clock (a loaded machine may time out): they
    // are counted in the evidence but not required
    for k in ["paths_compared", "prefix_pairs", "pacing_pairs[RRT]", "pacing_pairs[RRTConnect]", "pacing_pairs[RRTStar]", "pacing_pairs[PRM]", "roadmap_prefix_pairs", "latency_pairs[RRT]", "latency_pairs[RRTConnect]", "latency_pairs[RRTStar]", "latency_pairs[PRM]"] {
        ctx.require(k);
    }
    ctx.finish(
        "cases = call histories ({setup; solve}, {setup; solve; solve}, {setup; solve; setup(P2); solve}, {solve; setup; solve}, PRM {setup; construct; solve; set_pd(P2); solve; construct; solve} ...) executed on two fresh instances with the same seed; results compared at every call (paths bit for bit, errors by variant, snapshots by hash); goal samplers that consume the planner's generator; iteration counts made exact by the virtual clock; plus prefix pairs (N vs N' > N iterations: node states, final parent links, roadmap links among the common milestones), clock-pacing pairs (same N iterations with the elapsed time distributed uniformly / front-loaded / back-loaded over the iterations: results, trees and roadmaps must be identical), callback-latency pairs (validity checker answering at once vs taking 1 ms of real time for the first 40 queries of every call, setup included) and real-time vs virtual-time runs; distinct+non-trivial = distinct returned paths with >= 3 states",
        &[
            "user callbacks are deterministic (they are: pure functions of the state, plus the generator the planner passes in)",
            "the two instances run on the same thread, so any use of thread-local or OS entropy shows up as a difference",
        ],
        json!({"histories": n}),
    )
}

pub fn replay(v: &Value, file: &str) -> i32 {
    let h = History::from_json(v);
    let mut ctx = Ctx::new("C07", Tier::Quick, 0, "exploration");
    ctx.replay_of = Some(file.to_string());
    let mut b = Batch::default();
    with_kit!(h.problems[0].spec, K, kit => {
        run_case::<K>(&ctx, &mut b, &kit, &h);
        if let Some(p) = v["prefix"].as_array() {
            prefix_case::<K>(&ctx, &mut b, &kit, &h, p[0].as_u64().unwrap_or(1), p[1].as_u64().unwrap_or(2));
        }
        if !v["pace"].is_null() {
            // (the pacing parameters are re-drawn; the recorded ones are in the replay file)
            let mut r = Sm::derive(0, &[77]);
            for _ in 0..20 {
                pace_case::<K>(&ctx, &mut b, &kit, &h, &mut r);
            }
        }
    });
    ctx.merge(b);
    ctx.finish("replay of one recorded history", &[], json!({"replay": true}))
}

#[allow(dead_code)]
fn unused<K: Kit>(_d: &Drv<K>) {}
