//! C14 Uniform sampling is uniform: goodness of fit of large samples against the exact
//! one-dimensional marginal laws, judged by the Dvoretzky-Kiefer-Wolfowitz bound (rigorous for
//! every N, no asymptotics) at alpha = 1e-9 per test.
use crate::spec::{build_compound, build_r, build_so2, build_so3, flatten_dyn, Comp, Spec, Wrap, CK};
use crate::util::{fj, hash_f64s, par_shards, Batch, Ctx, Sm, Tier, FNV0};
use crate::world::qmul;
use oxmpl::base::space::{SE2StateSpace, SE3StateSpace, StateSpace};
use rand::SeedableRng;
use rand_chacha::ChaCha8Rng;
use serde_json::json;
use std::f64::consts::PI;

const ALPHA: f64 = 1e-9;

fn dkw_eps(n: usize) -> f64 {
    ((2.0 / ALPHA).ln() / (2.0 * n as f64)).sqrt()
}

/// sup |F_n - F| for a sample (sorted in place) against an exact CDF.
fn ks_stat(xs: &mut [f64], cdf: &dyn Fn(f64) -> f64) -> f64 {
    xs.sort_by(|a, b| a.partial_cmp(b).unwrap_or(std::cmp::Ordering::Equal));
    let n = xs.len() as f64;
    let mut d = 0.0f64;
    let mut i = 0usize;
    while i < xs.len() {
        // group ties: F_n jumps from i/n to j/n at this value (continuous F assumed)
        let mut j = i + 1;
        while j < xs.len() && xs[j] == xs[i] {
            j += 1;
        }
        let f = cdf(xs[i]).clamp(0.0, 1.0);
        d = d.max((f - i as f64 / n).abs()).max((j as f64 / n - f).abs());
        i = j;
    }
    d
}
/// sup |F1 - F2| between two samples.
fn ks_two(a: &mut [f64], b: &mut [f64]) -> f64 {
    a.sort_by(|x, y| x.partial_cmp(y).unwrap_or(std::cmp::Ordering::Equal));
    b.sort_by(|x, y| x.partial_cmp(y).unwrap_or(std::cmp::Ordering::Equal));
    let (na, nb) = (a.len() as f64, b.len() as f64);
    let (mut i, mut j) = (0usize, 0usize);
    let mut d = 0.0f64;
    while i < a.len() && j < b.len() {
        let x = a[i].min(b[j]);
        while i < a.len() && a[i] <= x {
            i += 1;
        }
        while j < b.len() && b[j] <= x {
            j += 1;
        }
        d = d.max((i as f64 / na - j as f64 / nb).abs());
    }
    d
}

fn cdf_coord_s3(x: f64) -> f64 {
    let x = x.clamp(-1.0, 1.0);
    0.5 + (x * (1.0 - x * x).sqrt() + x.asin()) / PI
}

/// One named scalar statistic of a sample with its exact CDF.
struct Stat {
    name: String,
    values: Vec<f64>,
    cdf: Box<dyn Fn(f64) -> f64>,
    /// for a two-point statistic: the observed deviation |frac - 1/2| (Hoeffding's bound for
    /// a fair coin has the same epsilon as DKW); `values` then only carries the sample size
    direct: Option<f64>,
}

/// Statistics of one component (given its slice of every sample).
fn comp_stats(kind: &CK, ci: usize, cols: &[Vec<f64>], r: &mut Sm) -> Vec<Stat> {
    let n = cols[0].len();
    let mut out = vec![];
    match kind {
        CK::R { bounds, .. } => {
            let b = bounds.as_ref().unwrap();
            for (i, col) in cols.iter().enumerate() {
                let (lo, hi) = b[i];
                // (halved operands: the width of a finite interval may overflow)
                out.push(Stat { name: format!("c{ci}.x{i}~U({lo},{hi})"), values: col.clone(), cdf: Box::new(move |x| (x / 2.0 - lo / 2.0) / (hi / 2.0 - lo / 2.0)), direct: None });
            }
        }
        CK::So2 { bounds } => {
            let (lo, hi) = bounds.unwrap_or((-PI, PI));
            let (lo, hi) = (lo.max(-PI), hi.min(PI));
            out.push(Stat { name: format!("c{ci}.angle~U({lo},{hi})"), values: cols[0].clone(), cdf: Box::new(move |x| (x - lo) / (hi - lo)), direct: None });
        }
        CK::So3 { bounds } => {
            // relative rotation to the cone centre (identity when unbounded)
            let (c, rad) = match bounds {
                Some((c, rad)) => (*c, rad.min(PI)),
                None => ([0.0, 0.0, 0.0, 1.0], PI),
            };
            let cinv = [-c[0], -c[1], -c[2], c[3]];
            let mut ang = Vec::with_capacity(n);
            let mut az = Vec::with_capacity(n);
            let mut zc = Vec::with_capacity(n);
            let mut wsign = 0usize;
            for k in 0..n {
                let qk = [cols[0][k], cols[1][k], cols[2][k], cols[3][k]];
                if qk[3] >= 0.0 {
                    wsign += 1;
                }
                let mut rel = qmul(&cinv, &qk);
                if rel[3] < 0.0 {
                    rel = [-rel[0], -rel[1], -rel[2], -rel[3]];
                }
                let vn = (rel[0] * rel[0] + rel[1] * rel[1] + rel[2] * rel[2]).sqrt();
                ang.push(2.0 * vn.atan2(rel[3]));
                if vn > 0.0 {
                    zc.push(rel[2] / vn);
                    az.push(rel[1].atan2(rel[0]));
                }
            }
            let norm = rad - rad.sin();
            out.push(Stat { name: format!("c{ci}.rotation-angle~(t-sin t)/({rad}-sin)"), values: ang, cdf: Box::new(move |t| (t - t.sin()) / norm), direct: None });
            out.push(Stat { name: format!("c{ci}.axis-z~U(-1,1)"), values: zc, cdf: Box::new(|z| (z + 1.0) / 2.0), direct: None });
            out.push(Stat { name: format!("c{ci}.axis-azimuth~U(-pi,pi)"), values: az, cdf: Box::new(|a| (a + PI) / (2.0 * PI)), direct: None });
            if bounds.is_none() || rad >= PI - 1e-12 {
                // q and -q are the same rotation, and which of the two a sampler returns is its own
                // business (always w >= 0 is as Haar-uniform as a fair sign): the coordinate laws
                // are tested on absolute values, P(|x| <= a) = 2 F(a) - 1
                for i in 0..4 {
                    out.push(Stat { name: format!("c{ci}.|q{i}|~|S3-coordinate|"), values: cols[i].iter().map(|x| x.abs()).collect(), cdf: Box::new(|x| 2.0 * cdf_coord_s3(x.max(0.0)) - 1.0), direct: None });
                }
                for p in 0..8 {
                    let u = r.quat();
                    let vals: Vec<f64> = (0..n).map(|k| (u[0] * cols[0][k] + u[1] * cols[1][k] + u[2] * cols[2][k] + u[3] * cols[3][k]).abs()).collect();
                    out.push(Stat { name: format!("c{ci}.|projection{p}|~|S3-coordinate|"), values: vals, cdf: Box::new(|x| 2.0 * cdf_coord_s3(x.max(0.0)) - 1.0), direct: None });
                }
                let _ = wsign;
            }
        }
    }
    out
}

struct Setting {
    spec: Spec,
    via: &'static str,
}

fn draw(setting: &Setting, seed: u64, n: usize) -> Result<Vec<Vec<f64>>, String> {
    // returns columns: cols[j][k] = j-th flat coordinate of sample k
    let spec = &setting.spec;
    let w = spec.width();
    let mut cols = vec![Vec::with_capacity(n); w];
    let mut rng = ChaCha8Rng::seed_from_u64(seed);
    let mut push = |f: &[f64]| {
        for j in 0..w {
            cols[j].push(f[j]);
        }
    };
    let c0 = &spec.comps[0];
    match (spec.wrap, setting.via) {
        (Wrap::R, _) => {
            if let CK::R { n: d, bounds } = &c0.kind {
                let sp = build_r(*d, bounds, None)?;
                for _ in 0..n {
                    push(&sp.sample_uniform(&mut rng).map_err(|e| format!("{e:?}"))?.values);
                }
            }
        }
        (Wrap::So2, _) => {
            if let CK::So2 { bounds } = &c0.kind {
                let sp = build_so2(bounds, None)?;
                for _ in 0..n {
                    push(&[sp.sample_uniform(&mut rng).map_err(|e| format!("{e:?}"))?.value]);
                }
            }
        }
        (Wrap::So3, _) => {
            if let CK::So3 { bounds } = &c0.kind {
                let sp = build_so3(bounds, None)?;
                for _ in 0..n {
                    let q = sp.sample_uniform(&mut rng).map_err(|e| format!("{e:?}"))?;
                    push(&[q.x, q.y, q.z, q.w]);
                }
            }
        }
        (Wrap::Se2, _) => {
            let (rb, ab) = match (&spec.comps[0].kind, &spec.comps[1].kind) {
                (CK::R { bounds: Some(rb), .. }, CK::So2 { bounds: Some(ab) }) => (rb.clone(), *ab),
                _ => return Err("bad SE2 setting".into()),
            };
            let sp = SE2StateSpace::new(spec.comps[1].weight, Some(vec![rb[0], rb[1], ab])).map_err(|e| format!("{e:?}"))?;
            for _ in 0..n {
                let s = sp.sample_uniform(&mut rng).map_err(|e| format!("{e:?}"))?;
                let mut f = vec![];
                flatten_dyn(&s, &mut f);
                push(&f);
            }
        }
        (Wrap::Se3, _) => {
            let rb = match &spec.comps[0].kind {
                CK::R { bounds: Some(rb), .. } => rb.clone(),
                _ => return Err("bad SE3 setting".into()),
            };
            let sp = SE3StateSpace::new(spec.comps[1].weight, Some(rb)).map_err(|e| format!("{e:?}"))?;
            for _ in 0..n {
                let s = sp.sample_uniform(&mut rng).map_err(|e| format!("{e:?}"))?;
                let mut f = vec![];
                flatten_dyn(&s, &mut f);
                push(&f);
            }
        }
        (Wrap::Compound, _) => {
            let sp = build_compound(spec)?;
            for _ in 0..n {
                let s = sp.sample_uniform(&mut rng).map_err(|e| format!("{e:?}"))?;
                let mut f = vec![];
                flatten_dyn(&s, &mut f);
                push(&f);
            }
        }
    }
    Ok(cols)
}

fn rejection_cost(spec: &Spec) -> f64 {
    let mut c = 1.0;
    for comp in &spec.comps {
        if let CK::So3 { bounds } = &comp.kind {
            let rad = bounds.map(|b| b.1.min(PI)).unwrap_or(PI);
            c += 4.0 / (0.308 * (rad - rad.sin()) / PI);
        }
    }
    c
}

fn check_setting(ctx: &Ctx, setting: &Setting, seed: u64, n_target: usize) {
    let spec = &setting.spec;
    let n = n_target.min((4e8 / rejection_cost(spec)) as usize).max(if rejection_cost(spec) > 3e6 { 40 } else if rejection_cost(spec) > 3e5 { 1_200 } else if rejection_cost(spec) > 2e4 { 3_000 } else { 20_000 });
    // very wide boxes: thousands of pairwise independence tests, fewer samples each
    let n = if spec.width() >= 40 { n.min(20_000) } else { n };
    let eps = dkw_eps(n);
    let mut b = Batch::default();
    let mut r = Sm::derive(seed, &[14, spec.width() as u64]);
    let cols = match draw(setting, seed, n) {
        Ok(c) => c,
        Err(e) if setting.via == "may-refuse" && e.contains("UnboundedDimension") => {
            ctx.count("settings_refused_with_the_documented_error", 1);
            return;
        }
        Err(e) => {
            ctx.inconclusive(format!("sampling failed on {}: {e}", spec.describe()));
            return;
        }
    };
    b.evaluations += n as u64;
    b.count("samples_drawn", n as u64);
    b.count(&format!("settings[{}]", spec.wrap.name()), 1);
    // distinct samples (by bits) - uniform samples should essentially never repeat
    let mut seen = std::collections::HashSet::new();
    for k in (0..n).step_by((n / 20_000).max(1)) {
        let row: Vec<f64> = cols.iter().map(|c| c[k]).collect();
        seen.insert(hash_f64s(hash_f64s(FNV0, &[seed as f64]), &row));
    }
    b.distinct.extend(seen);

    let offs = spec.offsets();
    let mut per_comp: Vec<Vec<Stat>> = vec![];
    for (ci, c) in spec.comps.iter().enumerate() {
        let cc: Vec<Vec<f64>> = (offs[ci]..offs[ci] + c.kind.width()).map(|j| cols[j].clone()).collect();
        per_comp.push(comp_stats(&c.kind, ci, &cc, &mut r));
    }
    let report = |name: &str, stat: f64, bound: f64, what: &str| {
        ctx.violate(
            &format!("{what}:{}", spec.wrap.name()),
            format!("{name}: sup-distance {stat:.5} exceeds the DKW bound {bound:.5} (N={n}, alpha={ALPHA:e}) on {}", spec.describe()),
            json!({"kind":"uniformity","spec":spec.to_json(),"seed":seed,"n":n,"statistic":name,"value":fj(stat),"bound":fj(bound)}),
        );
    };
    // marginal laws
    let mut flat_stats: Vec<(usize, &Stat)> = vec![];
    for (ci, st) in per_comp.iter().enumerate() {
        for s in st {
            flat_stats.push((ci, s));
        }
    }
    for (_, s) in &flat_stats {
        let mut v = s.values.clone();
        let e = dkw_eps(v.len().max(1));
        let d = match s.direct {
            Some(d) => d,
            None => ks_stat(&mut v, &*s.cdf),
        };
        b.count("marginal_tests", 1);
        b.max("worst_marginal_distance_over_bound", d / e);
        if d > e {
            report(&s.name, d, e, "marginal-law");
        }
    }
    // independence: split on the median of one statistic, compare another statistic's two
    // conditional empirical CDFs (each within eps_h of the common law under independence)
    let cand: Vec<(usize, &Stat)> = flat_stats.iter().filter(|(_, s)| s.values.len() == n && !s.name.contains("sign(w)") && !s.name.contains("projection")).cloned().collect();
    for (ia, (ca, sa)) in cand.iter().enumerate() {
        for (ib, (cb, sb)) in cand.iter().enumerate() {
            if ia == ib {
                continue;
            }
            // within one SO3 component only the angle/axis statistics are mutually independent;
            // raw quaternion coordinates are not independent of each other
            if ca == cb && (sa.name.contains("|q") || sb.name.contains("|q")) {
                continue;
            }
            let mut sorted = sb.values.clone();
            sorted.sort_by(|x, y| x.partial_cmp(y).unwrap_or(std::cmp::Ordering::Equal));
            let med = sorted[n / 2];
            let mut lo = vec![];
            let mut hi = vec![];
            for k in 0..n {
                if sb.values[k] < med {
                    lo.push(sa.values[k]);
                } else {
                    hi.push(sa.values[k]);
                }
            }
            if lo.len() < n / 4 || hi.len() < n / 4 {
                continue;
            }
            let bound = dkw_eps(lo.len()) + dkw_eps(hi.len());
            let d = ks_two(&mut lo, &mut hi);
            b.count("independence_tests", 1);
            b.max("worst_independence_distance_over_bound", d / bound);
            if d > bound {
                report(&format!("{} given {}", sa.name, sb.name), d, bound, "dependence");
            }
        }
    }
    if b.samples.is_empty() {
        b.sample(json!({"setting":spec.describe(),"N":n,"dkw_epsilon":eps,"statistics":flat_stats.iter().map(|(_,s)| s.name.clone()).collect::<Vec<_>>() }));
    }
    ctx.merge(b);
}

fn axis_angle_q(axis: [f64; 3], angle: f64) -> [f64; 4] {
    let s = (angle / 2.0).sin();
    [axis[0] * s, axis[1] * s, axis[2] * s, (angle / 2.0).cos()]
}

fn settings(r: &mut Sm, k: usize) -> Vec<Setting> {
    let mut v = vec![];
    let rb = |r: &mut Sm, n: usize| -> Vec<(f64, f64)> {
        (0..n)
            .map(|_| {
                let lo = r.range(-10.0, 10.0);
                (lo, lo + r.log_range(0.01, 100.0))
            })
            .collect()
    };
    // a finite interval whose width overflows: the sampler may refuse it (documented error), but
    // if it samples, the law must still be uniform
    v.push(Setting { spec: Spec::plain(Wrap::R, CK::R { n: 1, bounds: Some(vec![(-1.7e308, 0.2e308)]) }, None), via: "may-refuse" });
    // in every run, whatever k: wide cones (beyond 2 pi / 3 the cone covers most of the group) and
    // cones around large rotations (centre angle + radius > pi: the cone wraps past the w = 0
    // hyperplane of the quaternion sphere)
    for (c, rad) in [(r.quat(), 2.6), (r.quat(), 3.0), ([1.0, 0.0, 0.0, 0.0], 1.0), (axis_angle_q([0.6, 0.0, 0.8], 2.6), 1.2)] {
        v.push(Setting { spec: Spec::plain(Wrap::So3, CK::So3 { bounds: Some((c, rad)) }, None), via: "direct" });
    }
    // a cone below 0.08 rad (1 200 samples are affordable: epsilon 0.094, still far below the
    // distance between the cubic angle law and, say, a uniform angle) and a box with more than 48
    // coordinates (all 2 450 ordered pairs are tested for independence)
    v.push(Setting { spec: Spec::plain(Wrap::So3, CK::So3 { bounds: Some((r.quat(), 0.07)) }, None), via: "direct" });
    // a cone of 0.033 rad: two million candidates per sample by rejection, so 40 samples
    // (epsilon 0.52) - enough to tell the cubic angle law from a point mass or a shell
    v.push(Setting { spec: Spec::plain(Wrap::So3, CK::So3 { bounds: Some((r.quat(), 0.033)) }, None), via: "direct" });
    v.push(Setting { spec: Spec::plain(Wrap::R, CK::R { n: 50, bounds: Some(rb(r, 50)) }, None), via: "direct" });
    // sides of equal length at different offsets
    v.push(Setting { spec: Spec::plain(Wrap::R, CK::R { n: 3, bounds: Some(vec![(0.0, 10.0), (2.0, 12.0), (-7.0, 3.0)]) }, None), via: "direct" });
    // a box with more than 8 / 16 coordinates
    v.push(Setting { spec: Spec::plain(Wrap::R, CK::R { n: 17, bounds: Some(rb(r, 17)) }, None), via: "direct" });
    for i in 0..k {
        let n = [1usize, 3, 6, 2, 4, 5, 6, 2][i % 8];
        v.push(Setting { spec: Spec::plain(Wrap::R, CK::R { n, bounds: Some(rb(r, n)) }, None), via: "direct" });
        let s2 = if i == 0 {
            None
        } else {
            let a = r.range(-PI, PI);
            let bq = r.range(-PI, PI);
            Some((a.min(bq), a.max(bq) + 1e-3))
        };
        v.push(Setting { spec: Spec::plain(Wrap::So2, CK::So2 { bounds: s2 }, None), via: "direct" });
        // every run covers the unbounded group and, cycling with the setting index, narrow,
        // right-angle and wide cones
        let cone_radii = [1.0, 2.2, 0.6, 1.5, 3.0, 1.5707963267948966, 1.2, 2.8];
        let s3 = if i == 0 { None } else { Some((r.quat(), cone_radii[(i - 1) % cone_radii.len()])) };
        if i == 0 {
            v.push(Setting { spec: Spec::plain(Wrap::So3, CK::So3 { bounds: Some((r.quat(), 1.0)) }, None), via: "direct" });
        }
        v.push(Setting { spec: Spec::plain(Wrap::So3, CK::So3 { bounds: s3 }, None), via: "direct" });
        // tight cones: few samples are affordable (rejection cost ~ radius^-3), which is still
        // enough to see gross defects such as mass piling up on the boundary
        let tight = [0.25, 0.4, 0.3, 0.5, 0.2, 0.35][i % 6];
        v.push(Setting { spec: Spec::plain(Wrap::So3, CK::So3 { bounds: Some((r.quat(), tight)) }, None), via: "direct" });
        v.push(Setting {
            spec: Spec {
                wrap: Wrap::Se2,
                comps: vec![
                    Comp { kind: CK::R { n: 2, bounds: Some(rb(r, 2)) }, weight: 1.0, frac: None },
                    Comp { kind: CK::So2 { bounds: Some(if i % 2 == 0 { (-PI, PI) } else { (-1.0, 2.0) }) }, weight: 0.5, frac: None },
                ],
            },
            via: "direct",
        });
        v.push(Setting {
            spec: Spec {
                wrap: Wrap::Se3,
                comps: vec![
                    Comp { kind: CK::R { n: 3, bounds: Some(rb(r, 3)) }, weight: 1.0, frac: None },
                    Comp { kind: CK::So3 { bounds: None }, weight: 0.5, frac: None },
                ],
            },
            via: "direct",
        });
        // compound with mixed components
        let comps = vec![
            Comp { kind: CK::So2 { bounds: None }, weight: 1.0, frac: None },
            Comp { kind: CK::R { n: 2, bounds: Some(rb(r, 2)) }, weight: 0.0, frac: None },
            Comp { kind: CK::So3 { bounds: if i % 2 == 0 { None } else { Some((r.quat(), 1.2)) } }, weight: 50.0, frac: None },
        ];
        v.push(Setting { spec: Spec { wrap: Wrap::Compound, comps }, via: "direct" });
    }
    v
}

pub fn run(tier: Tier, seed: u64) -> i32 {
    let ctx = Ctx::new("C14", tier, seed, "exploration");
    let mut r = Sm::derive(seed, &[14]);
    let st = settings(&mut r, tier.pick(2, 8));
    let n = tier.pick(200_000, 5_000_000);
    par_shards(st.len(), crate::util::n_threads(), |i| {
        check_setting(&ctx, &st[i], seed.wrapping_mul(1000003).wrapping_add(i as u64 + 1), n);
    });
    for w in crate::spec::ALL_WRAPS {
        ctx.require(&format!("settings[{}]", w.name()));
    }
    ctx.require("marginal_tests");
    ctx.require("independence_tests");
    let tests = ctx.counter("marginal_tests") + ctx.counter("independence_tests");
    ctx.finish(
        "cases = samples drawn by sample_uniform (one ChaCha8 stream per setting, seeds derived from VERIF_SEED); every scalar statistic (coordinates, angle, rotation angle, axis z / azimuth, absolute quaternion coordinates and 8 random projections - q and -q are one rotation) is tested against its exact CDF by the DKW inequality, and pairs of statistics for independence by a two-sample DKW bound; distinct+non-trivial = distinct sample bit patterns in a 1-in-k subsample",
        &[
            "a bias smaller than the DKW epsilon printed in the samples is invisible to this check",
            "false-alarm probability per run <= (number of tests) * 1e-9, for every seed",
            "sample size is reduced for expensive (tight) SO3 cones: down to 3 000 samples (epsilon 0.06) at 0.2 rad",
            "ChaCha8Rng is trusted as a source of independent uniform bits",
        ],
        json!({"alpha_per_test": ALPHA, "tests_run": tests, "nominal_samples_per_setting": n, "dkw_epsilon_at_nominal_n": dkw_eps(n)}),
    )
}
