//! Shared planner workloads: W1 (generated worlds, planner RNG) and W2 (scripted sample
//! sequences), scenario (de)serialisation for replay.
use crate::drv::{run_once, Drv, Res};
use crate::monitor::SampleMode;
use crate::refm::ref_lvs;
use crate::spec::{Kit, Spec, Wrap, ALL_WRAPS};
use crate::util::Sm;
use crate::world::{alphabet, gen_params, gen_problem, gen_spec, GenOpts, Hostility, PKind, PParams, Problem, ALL_PLANNERS};
use serde_json::{json, Value};

#[derive(Clone, Debug)]
pub struct Scenario {
    pub problem: Problem,
    pub params: PParams,
    /// iterations for the tree planners / BFS budget irrelevant for PRM
    pub iters: u64,
    /// PRM: number of samples drawn by construct_roadmap
    pub prm_samples: u64,
    /// W2: scripted uniform samples (None = planner RNG)
    pub script: Option<Vec<Vec<f64>>>,
    /// max validity queries per public call before the run is abandoned
    pub query_budget: u64,
}

impl Scenario {
    pub fn to_json(&self) -> Value {
        json!({"kind":"scenario","problem":self.problem.to_json(),"params":self.params.to_json(),"iters":self.iters,
               "prm_samples":self.prm_samples,"script":self.script.as_ref().map(|s| s.iter().map(|x| crate::util::fjs(x)).collect::<Vec<_>>()),
               "query_budget":self.query_budget})
    }
    pub fn from_json(v: &Value) -> Scenario {
        Scenario {
            problem: Problem::from_json(&v["problem"]),
            params: PParams::from_json(&v["params"]),
            iters: v["iters"].as_u64().unwrap_or(100),
            prm_samples: v["prm_samples"].as_u64().unwrap_or(50),
            script: v["script"].as_array().map(|a| a.iter().map(crate::util::parse_fs).collect()),
            query_budget: v["query_budget"].as_u64().unwrap_or(1_000_000),
        }
    }
    pub fn describe(&self) -> String {
        format!(
            "{} on {} step={:.4} bias={} radius={:.4}/{:.4} iters={} prm_samples={} tags={:?}{}",
            self.params.kind.name(),
            self.problem.spec.describe(),
            self.params.max_distance,
            self.params.goal_bias,
            self.params.search_radius,
            self.params.connection_radius,
            self.iters,
            self.prm_samples,
            self.problem.tags,
            if self.script.is_some() { " scripted" } else { "" }
        )
    }
}

#[derive(Clone, Debug)]
pub struct CaseCfg {
    pub wrap: Wrap,
    pub planner: PKind,
    pub host: Hostility,
    pub extreme: bool,
    pub opts: GenOpts,
    pub max_iters: u64,
    pub scripted: bool,
}

/// Deterministic rotation through wraps x planners with a hostility drawn from `hosts`.
pub fn cfg_for(r: &mut Sm, idx: usize, hosts: &[Hostility], extreme_p: f64, opts: &GenOpts, max_iters: u64, scripted_p: f64) -> CaseCfg {
    CaseCfg {
        wrap: ALL_WRAPS[idx % 6],
        planner: ALL_PLANNERS[(idx / 6) % 4],
        host: *r.pick(hosts),
        extreme: r.bool(extreme_p),
        opts: opts.clone(),
        max_iters,
        scripted: r.bool(scripted_p),
    }
}

pub fn make_scenario(r: &mut Sm, cfg: &CaseCfg) -> Scenario {
    let spec: Spec = gen_spec(r, cfg.wrap, &cfg.opts);
    let mut problem = gen_problem(r, &spec, cfg.host);
    if cfg.planner == PKind::Prm && problem.infeasible.is_none() && matches!(cfg.host, Hostility::Plain | Hostility::Free | Hostility::GoalOverlap) {
        // PRM only succeeds when a milestone falls into the goal region: give it a fair chance
        let sg = crate::refm::ref_distance(&spec, &problem.start, &problem.goal.centre);
        problem.goal.radius = (problem.goal.radius * 2.5).min(0.45 * sg).max(problem.goal.radius);
        problem.tags.push("prm-goal-enlarged".into());
    }
    let params = gen_params(r, &spec, cfg.planner, cfg.extreme);
    let lvs = ref_lvs(&spec).max(1e-12);
    // expected validity queries of one motion check
    let per_motion = (params.step_limit().min(spec.diameter()) / (0.1 * lvs)).ceil().max(1.0);
    let cap = match cfg.planner {
        PKind::Star => (150_000.0 / (per_motion * 4.0)).max(20.0),
        PKind::Prm => (60_000.0 / per_motion).sqrt().max(10.0) * 3.0,
        _ => (250_000.0 / per_motion).max(20.0),
    };
    let hi = (cfg.max_iters as f64).min(cap).max(21.0);
    let iters = r.log_range(20.0, hi) as u64;
    let prm_samples = (r.log_range(10.0, hi.min(400.0)) as u64).max(2);
    let script: Option<Vec<Vec<f64>>> = if cfg.scripted {
        let al = alphabet(r, &problem, 4);
        let len = 4 + r.below(60);
        Some((0..len).map(|_| al[r.below(al.len())].clone()).collect::<Vec<Vec<f64>>>())
    } else {
        None
    };
    let iters = if let Some(s) = &script { (s.len() as u64).min(iters.max(4)) } else { iters };
    Scenario { problem, params, iters, prm_samples, script, query_budget: 1_500_000 }
}

/// Execute a scenario. Returns the driver (log, snapshot access) and the result of `solve`.
pub fn exec<K: Kit>(kit: &K, sc: &Scenario) -> Result<(Drv<K>, Res), String> {
    crate::watch::set_case(sc.to_json());
    match &sc.script {
        None => {
            let (d, r) = run_once_budget(kit, sc)?;
            Ok((d, r))
        }
        Some(script) => {
            oxmpl::verif::arm(0);
            let build_secs = (sc.prm_samples as f64 - 0.5) * 1e-3;
            let mut d = Drv::new(kit, &sc.params, build_secs).map_err(|r| format!("constructor failed: {}", r.short()))?;
            d.log.borrow_mut().budget = sc.query_budget;
            let inst = d.install(&sc.problem, SampleMode::Scripted(script.clone()))?;
            let r = d.setup(inst);
            if r != Res::Done {
                return Ok((d, r));
            }
            if sc.params.kind == PKind::Prm {
                {
                    let mut l = d.log.borrow_mut();
                    l.tick_sample = crate::drv::MS;
                    l.tick_valid = 0;
                }
                let r = d.construct_roadmap(true);
                if r != Res::Done {
                    return Ok((d, r));
                }
            }
            let r = d.solve_iters(sc.iters);
            Ok((d, r))
        }
    }
}

/// Like `exec` (planner RNG), but the planner object is first asked to solve before any
/// `setup` - a refused call - and only then set up and run.
pub fn exec_after_refused_solve<K: Kit>(kit: &K, sc: &Scenario) -> Result<(Drv<K>, Res), String> {
    crate::watch::set_case(sc.to_json());
    run_once_opts(kit, sc, true)
}

fn run_once_budget<K: Kit>(kit: &K, sc: &Scenario) -> Result<(Drv<K>, Res), String> {
    run_once_opts(kit, sc, false)
}

/// The earlier life of `exec_after_life_elsewhere`, for any driver: set up and solve an
/// obstacle-free problem on a 64 times larger, coarsest-resolution copy of `spec`, then wipe the
/// event log.
pub fn live_elsewhere<K: Kit>(d: &mut Drv<K>, kit: &K, spec: &crate::spec::Spec, salt: u64, prm: bool) -> Result<(), String> {
    let mut spec2 = spec.clone();
    for c in spec2.comps.iter_mut() {
        if let crate::spec::CK::R { bounds: Some(bs), .. } = &mut c.kind {
            for bnd in bs.iter_mut() {
                *bnd = (bnd.0 * 64.0, bnd.1 * 64.0);
            }
        }
        c.frac = Some(1.0);
    }
    let kit2 = K::new(spec2.clone());
    if kit2.build().is_ok() {
        let mut r = crate::util::Sm::derive(d.params.seed.unwrap_or(0), &[4242, salt]);
        let pre = crate::world::Problem {
            spec: spec2.clone(),
            world: crate::world::World::default(),
            start: crate::world::rand_state(&mut r, &spec2),
            extra_starts: vec![],
            // (every state satisfies this goal: the earlier life ends in a success at its first node)
            goal: crate::world::GoalSpec { centre: crate::world::rand_state(&mut r, &spec2), radius: 1e9, mode: crate::world::GoalMode::Centre, fail_at: None, window: None },
            infeasible: None,
            tags: vec![],
        };
        d.kit = kit2;
        let inst = d.install(&pre, SampleMode::PlannerRng);
        let inst = match inst {
            Ok(i) => i,
            Err(e) => {
                d.kit = kit.clone();
                return Err(e);
            }
        };
        if d.setup(inst) == Res::Done {
            if prm {
                let _ = d.construct_roadmap(true);
            }
            let _ = d.solve_iters(40);
        }
        d.kit = kit.clone();
        let mut l = d.log.borrow_mut();
        l.recs.clear();
        l.n_valid = 0;
        l.n_uniform = 0;
        l.n_goal_sample = 0;
    }
    Ok(())
}

/// Like `exec` (planner RNG), but the planner object has had an earlier life on *another space
/// object of the same type* - a copy of the space that is 64 times larger and as coarse as the
/// resolution fraction allows, an obstacle-free problem, a few dozen iterations. Nothing of
/// that life may survive the new `setup`.
pub fn exec_after_life_elsewhere<K: Kit>(kit: &K, sc: &Scenario) -> Result<(Drv<K>, Res), String> {
    crate::watch::set_case(sc.to_json());
    oxmpl::verif::arm(0);
    let build_secs = (sc.prm_samples as f64 - 0.5) * 1e-3;
    let mut d = Drv::new(kit, &sc.params, build_secs).map_err(|r| format!("constructor failed: {}", r.short()))?;
    d.log.borrow_mut().budget = sc.query_budget;
    live_elsewhere(&mut d, kit, &sc.problem.spec, sc.iters, sc.params.kind == PKind::Prm)?;
    let inst = d.install(&sc.problem, SampleMode::PlannerRng)?;
    let r = d.setup(inst);
    if r != Res::Done {
        return Ok((d, r));
    }
    if sc.params.kind == PKind::Prm {
        {
            let mut l = d.log.borrow_mut();
            l.tick_sample = crate::drv::MS;
            l.tick_valid = 0;
        }
        let r = d.construct_roadmap(true);
        if r != Res::Done {
            return Ok((d, r));
        }
    }
    let r = d.solve_iters(sc.iters);
    Ok((d, r))
}

fn run_once_opts<K: Kit>(kit: &K, sc: &Scenario, refused_first: bool) -> Result<(Drv<K>, Res), String> {
    // run_once with the scenario's query budget
    oxmpl::verif::arm(0);
    let build_secs = (sc.prm_samples as f64 - 0.5) * 1e-3;
    let mut d = Drv::new(kit, &sc.params, build_secs).map_err(|r| format!("constructor failed: {}", r.short()))?;
    d.log.borrow_mut().budget = sc.query_budget;
    if refused_first {
        let r = d.solve_iters(3);
        if !matches!(r, Res::Err(_)) {
            return Err(format!("solve before setup returned {}", r.short()));
        }
    }
    let inst = d.install(&sc.problem, SampleMode::PlannerRng)?;
    let r = d.setup(inst);
    if r != Res::Done {
        return Ok((d, r));
    }
    if sc.params.kind == PKind::Prm {
        {
            let mut l = d.log.borrow_mut();
            l.tick_sample = crate::drv::MS;
            l.tick_valid = 0;
        }
        let r = d.construct_roadmap(true);
        if r != Res::Done {
            return Ok((d, r));
        }
    }
    let r = d.solve_iters(sc.iters);
    let _ = run_once::<K>;
    Ok((d, r))
}
