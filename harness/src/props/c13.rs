//! C13 Compound spaces compose their components by the documented law; SE2/SE3 behave as the
//! compound of their translation and rotation spaces with weights (1, w).
use crate::drv::guarded;
use crate::spec::{build_compound, build_r, build_so2, build_so3, compound_state, flatten_dyn, Comp, Spec, Wrap, CK};
use crate::util::{fj, fjs, hash_f64s, par_shards, Batch, Ctx, Sm, Tier, FNV0};
use oxmpl::base::space::{AnyStateSpace, CompoundStateSpace, RealVectorStateSpace, SE2StateSpace, SE3StateSpace, SO2StateSpace, SO3StateSpace, StateSpace};
use oxmpl::base::state::{RealVectorState, SE2State, SE3State, SO2State, SO3State};
use rand::SeedableRng;
use rand_chacha::ChaCha8Rng;
use serde_json::json;
use std::f64::consts::PI;

/// A typed component space: the oracle calls the component's own (non-erased) operations.
enum CompSp {
    R(RealVectorStateSpace),
    S2(SO2StateSpace),
    S3(SO3StateSpace),
}
impl CompSp {
    fn build(c: &Comp) -> Result<CompSp, String> {
        Ok(match &c.kind {
            CK::R { n, bounds } => CompSp::R(build_r(*n, bounds, c.frac)?),
            CK::So2 { bounds } => CompSp::S2(build_so2(bounds, c.frac)?),
            CK::So3 { bounds } => CompSp::S3(build_so3(bounds, c.frac)?),
        })
    }
    fn distance(&self, a: &[f64], b: &[f64]) -> f64 {
        match self {
            CompSp::R(s) => s.distance(&RealVectorState { values: a.to_vec() }, &RealVectorState { values: b.to_vec() }),
            CompSp::S2(s) => s.distance(&SO2State { value: a[0] }, &SO2State { value: b[0] }),
            CompSp::S3(s) => s.distance(&q(a), &q(b)),
        }
    }
    fn interpolate(&self, a: &[f64], b: &[f64], t: f64) -> Vec<f64> {
        match self {
            CompSp::R(s) => {
                let mut o = RealVectorState { values: a.to_vec() };
                s.interpolate(&RealVectorState { values: a.to_vec() }, &RealVectorState { values: b.to_vec() }, t, &mut o);
                o.values
            }
            CompSp::S2(s) => {
                let mut o = SO2State { value: a[0] };
                s.interpolate(&SO2State { value: a[0] }, &SO2State { value: b[0] }, t, &mut o);
                vec![o.value]
            }
            CompSp::S3(s) => {
                let mut o = q(a);
                s.interpolate(&q(a), &q(b), t, &mut o);
                vec![o.x, o.y, o.z, o.w]
            }
        }
    }
    fn enforce(&self, a: &[f64]) -> Vec<f64> {
        match self {
            CompSp::R(s) => {
                let mut o = RealVectorState { values: a.to_vec() };
                s.enforce_bounds(&mut o);
                o.values
            }
            CompSp::S2(s) => {
                let mut o = SO2State { value: a[0] };
                s.enforce_bounds(&mut o);
                vec![o.value]
            }
            CompSp::S3(s) => {
                let mut o = q(a);
                s.enforce_bounds(&mut o);
                vec![o.x, o.y, o.z, o.w]
            }
        }
    }
    fn satisfies(&self, a: &[f64]) -> bool {
        match self {
            CompSp::R(s) => s.satisfies_bounds(&RealVectorState { values: a.to_vec() }),
            CompSp::S2(s) => s.satisfies_bounds(&SO2State { value: a[0] }),
            CompSp::S3(s) => s.satisfies_bounds(&q(a)),
        }
    }
    fn sample(&self, rng: &mut ChaCha8Rng) -> Result<Vec<f64>, String> {
        match self {
            CompSp::R(s) => s.sample_uniform(rng).map(|x| x.values).map_err(|e| format!("{e:?}")),
            CompSp::S2(s) => s.sample_uniform(rng).map(|x| vec![x.value]).map_err(|e| format!("{e:?}")),
            CompSp::S3(s) => s.sample_uniform(rng).map(|o| vec![o.x, o.y, o.z, o.w]).map_err(|e| format!("{e:?}")),
        }
    }
    fn lvs(&self) -> f64 {
        match self {
            CompSp::R(s) => s.get_longest_valid_segment_length(),
            CompSp::S2(s) => s.get_longest_valid_segment_length(),
            CompSp::S3(s) => s.get_longest_valid_segment_length(),
        }
    }
}
fn q(a: &[f64]) -> SO3State {
    SO3State { x: a[0], y: a[1], z: a[2], w: a[3] }
}
fn bits_eq(a: &[f64], b: &[f64]) -> bool {
    a.len() == b.len() && a.iter().zip(b).all(|(x, y)| x.to_bits() == y.to_bits())
}

fn kinds(r: &mut Sm) -> Vec<CK> {
    vec![
        CK::R { n: 1, bounds: Some(vec![(-2.0, 3.0)]) },
        CK::R { n: 2, bounds: Some(vec![(-1.0, 1.0), (0.0, 10.0)]) },
        CK::R { n: 3, bounds: Some(vec![(-5.0, 5.0), (-1.0, 0.5), (2.0, 4.0)]) },
        CK::So2 { bounds: None },
        CK::So2 { bounds: Some((-1.0, 2.5)) },
        CK::So3 { bounds: None },
        CK::So3 { bounds: Some((r.quat(), 1.0)) },
        CK::R { n: 9, bounds: Some((0..9).map(|i| (-1.0 - i as f64, 2.0 + 0.5 * i as f64)).collect()) },
    ]
}

fn states_for(r: &mut Sm, spec: &Spec, n: usize) -> Vec<Vec<f64>> {
    let mut v = super::lattice::state_lattice(r, spec, n / 2, true);
    let bv = super::c09::bounded_view(spec);
    while v.len() < n {
        v.push(crate::world::rand_state(r, &bv));
    }
    // quaternions that are not unit (the state type does not normalise): a compound must hand
    // them to its rotation component exactly as they are
    let offs = spec.offsets();
    for (ci, c) in spec.comps.iter().enumerate() {
        if matches!(c.kind, CK::So3 { .. }) {
            for k in 0..4.min(v.len()) {
                let mut s = v[(k * 7 + 3) % v.len()].clone();
                let f = [2.0, 0.5, 1.0 + 1e-6, 3.0][k];
                for x in s[offs[ci]..offs[ci] + 4].iter_mut() {
                    *x *= f;
                }
                v.push(s);
            }
        }
    }
    v
}

/// Generic over "the compound under test": closures produce results on flat states.
struct Ops<'a> {
    distance: Box<dyn Fn(&[f64], &[f64]) -> f64 + 'a>,
    /// (from, to, t, scratch): the output state initially holds `scratch` - its prior
    /// content must not matter
    interpolate: Box<dyn Fn(&[f64], &[f64], f64, &[f64]) -> Vec<f64> + 'a>,
    enforce: Box<dyn Fn(&[f64]) -> Vec<f64> + 'a>,
    satisfies: Box<dyn Fn(&[f64]) -> bool + 'a>,
    sample: Box<dyn Fn(&mut ChaCha8Rng) -> Result<Vec<f64>, String> + 'a>,
    lvs: f64,
}

fn compound_ops<'a>(sp: &'a CompoundStateSpace, spec: &'a Spec, erased: bool) -> Ops<'a> {
    Ops {
        distance: Box::new(move |a, b| {
            let (sa, sb) = (compound_state(spec, a), compound_state(spec, b));
            if erased {
                sp.distance_dyn(&sa, &sb)
            } else {
                sp.distance(&sa, &sb)
            }
        }),
        interpolate: Box::new(move |a, b, t, scratch| {
            let (sa, sb) = (compound_state(spec, a), compound_state(spec, b));
            let mut out = compound_state(spec, scratch);
            if erased {
                sp.interpolate_dyn(&sa, &sb, t, &mut out);
            } else {
                sp.interpolate(&sa, &sb, t, &mut out);
            }
            let mut f = vec![];
            flatten_dyn(&out, &mut f);
            f
        }),
        enforce: Box::new(move |a| {
            let mut s = compound_state(spec, a);
            if erased {
                sp.enforce_bounds_dyn(&mut s);
            } else {
                sp.enforce_bounds(&mut s);
            }
            let mut f = vec![];
            flatten_dyn(&s, &mut f);
            f
        }),
        satisfies: Box::new(move |a| {
            let s = compound_state(spec, a);
            if erased {
                sp.satisfies_bounds_dyn(&s)
            } else {
                sp.satisfies_bounds(&s)
            }
        }),
        sample: Box::new(move |rng| {
            if erased {
                sp.sample_uniform_dyn(rng).map(|s| {
                    let mut f = vec![];
                    flatten_dyn(&*s, &mut f);
                    f
                }).map_err(|e| format!("{e:?}"))
            } else {
                sp.sample_uniform(rng).map(|s| {
                    let mut f = vec![];
                    flatten_dyn(&s, &mut f);
                    f
                }).map_err(|e| format!("{e:?}"))
            }
        }),
        lvs: if erased { sp.get_longest_valid_segment_length_dyn() } else { sp.get_longest_valid_segment_length() },
    }
}

/// Check `ops` (a compound-like space) against the composition law over typed components.
/// Does `got` equal sqrt(sum t_i^2)? The property states the mathematical value; in floating
/// point the plain sum of squares and an overflow/underflow-safe (hypot-style, scaled by the
/// largest term) evaluation are both faithful, and they differ only where a square leaves the
/// double range (terms below 1e-154 or above 1e154). Either is accepted to 1e-12 relative.
fn wnorm_matches(got: f64, terms: &[f64]) -> (bool, f64) {
    let naive = terms.iter().map(|t| t * t).sum::<f64>().sqrt();
    let m = terms.iter().fold(0.0f64, |m, t| m.max(t.abs()));
    let scaled = if m == 0.0 || !m.is_finite() { m } else { m * terms.iter().map(|t| (t / m) * (t / m)).sum::<f64>().sqrt() };
    let close = |want: f64| got == want || (got - want).abs() <= 1e-12 * want.abs().max(1e-300);
    (close(naive) || close(scaled), if close(naive) { naive } else { scaled })
}

fn check_law(ctx: &Ctx, b: &mut Batch, r: &mut Sm, spec: &Spec, ops: &Ops, label: &str, n_states: usize) {
    let comps: Vec<CompSp> = match spec.comps.iter().map(CompSp::build).collect::<Result<Vec<_>, _>>() {
        Ok(c) => c,
        Err(e) => {
            ctx.inconclusive(format!("component not constructible: {e}"));
            return;
        }
    };
    let offs = spec.offsets();
    let states = states_for(r, spec, n_states);
    let rep = |sig: &str, detail: String, a: &[f64], bb: &[f64], t: f64| {
        ctx.violate(&format!("{sig}:{label}"), detail, json!({"kind":"compose","spec":spec.to_json(),"a":fjs(a),"b":fjs(bb),"t":fj(t),"via":label}));
    };
    let slice = |v: &[f64], i: usize| v[offs[i]..offs[i] + spec.comps[i].kind.width()].to_vec();

    // resolution
    let terms: Vec<f64> = comps.iter().enumerate().map(|(i, c)| c.lvs() * spec.comps[i].weight).collect();
    let (lvs_ok, want_lvs) = wnorm_matches(ops.lvs, &terms);
    b.evaluations += 1;
    if !lvs_ok {
        rep("resolution-law", format!("longest valid segment {} != sqrt(sum (w_i lvs_i)^2) = {want_lvs}", ops.lvs), &[], &[], 0.0);
    }

    for (ia, a) in states.iter().enumerate() {
        // unary operations
        b.evaluations += 1;
        let enf = match guarded(|| (ops.enforce)(a)) {
            Ok(x) => x,
            Err(e) => {
                rep("panic", e.short(), a, &[], 0.0);
                continue;
            }
        };
        let mut want = vec![];
        let mut want_sat = true;
        for (i, c) in comps.iter().enumerate() {
            want.extend(c.enforce(&slice(a, i)));
            want_sat &= c.satisfies(&slice(a, i));
        }
        if !bits_eq(&enf, &want) {
            rep("enforce-not-componentwise", format!("compound {enf:?} components {want:?}"), a, &[], 0.0);
        }
        let sat = (ops.satisfies)(a);
        if sat != want_sat {
            rep("satisfies-not-componentwise", format!("compound {sat} components {want_sat}"), a, &[], 0.0);
        }
        b.count("unary_checks", 1);
        // binary operations against a few partners
        for k in 0..8 {
            // partners: other lattice states, and (k >= 6) a copy of `a` that differs in one
            // component only, so that some components coincide exactly
            let mut mixed;
            let bb: &Vec<f64> = if k < 6 {
                &states[(ia * 7 + k * 13 + 1) % states.len()]
            } else {
                let other = &states[(ia * 5 + k) % states.len()];
                let ci = (ia + k) % spec.comps.len();
                mixed = a.clone();
                let w = spec.comps[ci].kind.width();
                mixed[offs[ci]..offs[ci] + w].copy_from_slice(&other[offs[ci]..offs[ci] + w]);
                &mixed
            };
            b.evaluations += 1;
            let d = (ops.distance)(a, bb);
            let mut terms = vec![];
            let mut any_pos = false;
            for (i, c) in comps.iter().enumerate() {
                let di = c.distance(&slice(a, i), &slice(bb, i));
                any_pos |= di > 0.0;
                terms.push(di * spec.comps[i].weight);
            }
            let (d_ok, want_d) = wnorm_matches(d, &terms);
            if !d_ok {
                rep("distance-law", format!("compound distance {d} != sqrt(sum (w_i d_i)^2) = {want_d}"), a, bb, 0.0);
            }
            let scratch = &states[(ia * 11 + k * 3 + 5) % states.len()];
            // (beyond [0, 1] the components extrapolate; so must the compound)
            for t in [0.0, 0.3, r.f(), 1.0, 1.25, -0.25, 1.0 + 1e-9] {
                let it = (ops.interpolate)(a, bb, t, scratch);
                let mut want = vec![];
                for (i, c) in comps.iter().enumerate() {
                    want.extend(c.interpolate(&slice(a, i), &slice(bb, i), t));
                }
                if !bits_eq(&it, &want) {
                    rep("interpolate-not-componentwise", format!("compound {it:?} components {want:?}"), a, bb, t);
                }
            }
            if any_pos {
                b.distinct.insert(hash_f64s(hash_f64s(hash_f64s(FNV0, &[spec.comps.len() as f64]), a), bb));
            }
            b.count("pair_checks", 1);
        }
    }
    // sampling acts component by component. The strong form is decidable bit for bit: with the
    // same generator the compound sample equals the components' own samples drawn in *some*
    // fixed order (the property does not say which). Where no order reproduces the bits (a
    // legitimate implementation may fork a generator per component) the weaker, statistical
    // form is judged instead: every component of the compound sample lies in its component's
    // bounds and its marginal distribution is that of the component's own sampler.
    let widths: Vec<usize> = spec.comps.iter().map(|c| c.kind.width()).collect();
    // which components can fail to sample (unbounded dimension, overflowing width)?
    let mut may_err: Vec<String> = vec![];
    let mut always_err = false;
    for c in &comps {
        let outs: Vec<Result<Vec<f64>, String>> = (0..6u64).map(|k| c.sample(&mut ChaCha8Rng::seed_from_u64(77 + k))).collect();
        always_err |= outs.iter().all(|o| o.is_err());
        for o in outs {
            if let Err(e) = o {
                if !may_err.contains(&e) {
                    may_err.push(e);
                }
            }
        }
    }
    let perms = permutations(comps.len());
    let mut alive: Vec<bool> = vec![true; perms.len()];
    let mut oks = 0;
    'seeds: for s in 0..8u64 {
        let mut r1 = ChaCha8Rng::seed_from_u64(1000 + s);
        let mut rp: Vec<ChaCha8Rng> = perms.iter().map(|_| ChaCha8Rng::seed_from_u64(1000 + s)).collect();
        for _ in 0..4 {
            b.evaluations += 1;
            let got = (ops.sample)(&mut r1);
            match &got {
                Err(g) => {
                    if !may_err.contains(g) {
                        if may_err.is_empty() {
                            rep("sample-outcome-differs", format!("compound sampling fails with {g} although every component samples fine"), &[], &[], 0.0);
                        } else {
                            rep("sample-error-differs", format!("{g} vs the components' errors {may_err:?}"), &[], &[], 0.0);
                        }
                    }
                    break 'seeds;
                }
                Ok(g) => {
                    if always_err {
                        rep("sample-outcome-differs", format!("compound sampling succeeds ({g:?}) although a component cannot be sampled ({may_err:?})"), &[], &[], 0.0);
                        break 'seeds;
                    }
                    oks += 1;
                    for (pi, p) in perms.iter().enumerate() {
                        if !alive[pi] {
                            continue;
                        }
                        let mut want = vec![0.0; g.len()];
                        let mut ok = true;
                        for &ci in p {
                            match comps[ci].sample(&mut rp[pi]) {
                                Ok(v) => want[offs[ci]..offs[ci] + widths[ci]].copy_from_slice(&v),
                                Err(_) => ok = false,
                            }
                        }
                        if !ok || !bits_eq(g, &want) {
                            alive[pi] = false;
                        }
                    }
                }
            }
        }
    }
    if oks > 0 {
        if alive.iter().any(|a| *a) {
            b.count("sample_checks", oks);
            b.count("sample_checks_bit_exact", oks);
        } else {
            // statistical form
            const N: usize = 600;
            let mut rc = ChaCha8Rng::seed_from_u64(31337);
            let mut got: Vec<Vec<f64>> = vec![];
            for _ in 0..N {
                if let Ok(g) = (ops.sample)(&mut rc) {
                    got.push(g);
                }
            }
            let mut bad: Option<String> = None;
            if got.len() < N {
                bad = Some(format!("only {} of {N} compound samples succeeded although the components sample fine", got.len()));
            }
            for (ci, c) in comps.iter().enumerate() {
                if bad.is_some() {
                    break;
                }
                let mut rk = ChaCha8Rng::seed_from_u64(4242 + ci as u64);
                let own: Vec<Vec<f64>> = (0..N).filter_map(|_| c.sample(&mut rk).ok()).map(|v| canon_sign(&spec.comps[ci].kind, v)).collect();
                let mine: Vec<Vec<f64>> = got.iter().map(|g| canon_sign(&spec.comps[ci].kind, g[offs[ci]..offs[ci] + widths[ci]].to_vec())).collect();
                if let Some(g) = got.iter().find(|g| !c.satisfies(&g[offs[ci]..offs[ci] + widths[ci]])) {
                    bad = Some(format!("component {ci} of the compound sample {g:?} is outside that component's bounds"));
                    break;
                }
                for j in 0..widths[ci] {
                    let d = ks_two_sample(mine.iter().map(|v| v[j]).collect(), own.iter().map(|v| v[j]).collect());
                    // two-sample DKW: P(D > eps) <= 2 exp(-eps^2 N) for N = M; eps = 0.19 <=> 1e-9
                    if d > 0.19 {
                        bad = Some(format!("coordinate {j} of component {ci}: the marginal of {N} compound samples differs from {N} samples of the component's own sampler (KS distance {d:.3} > 0.19, chance < 1e-9)"));
                        break;
                    }
                }
            }
            match bad {
                Some(detail) => rep("sample-not-componentwise", format!("no order of component draws reproduces the compound sample bit for bit, and {detail}"), &[], &[], 0.0),
                None => {
                    b.count("sample_checks", oks);
                    b.count("sample_checks_statistical", oks);
                }
            }
        }
    }
}

/// q and -q are the same rotation: compare marginals on the representative with w >= 0
fn canon_sign(kind: &CK, mut v: Vec<f64>) -> Vec<f64> {
    if matches!(kind, CK::So3 { .. }) && (v[3] < 0.0 || (v[3] == 0.0 && v.iter().find(|x| **x != 0.0).is_some_and(|x| *x < 0.0))) {
        for x in v.iter_mut() {
            *x = -*x;
        }
    }
    v
}

fn ks_two_sample(mut a: Vec<f64>, mut b: Vec<f64>) -> f64 {
    if a.is_empty() || b.is_empty() {
        return 1.0;
    }
    a.sort_by(|x, y| x.total_cmp(y));
    b.sort_by(|x, y| x.total_cmp(y));
    let (mut i, mut j, mut d) = (0usize, 0usize, 0.0f64);
    while i < a.len() || j < b.len() {
        let x = match (a.get(i), b.get(j)) {
            (Some(p), Some(q)) => p.min(*q),
            (Some(p), None) => *p,
            (None, Some(q)) => *q,
            _ => break,
        };
        while i < a.len() && a[i] <= x {
            i += 1;
        }
        while j < b.len() && b[j] <= x {
            j += 1;
        }
        d = d.max((i as f64 / a.len() as f64 - j as f64 / b.len() as f64).abs());
    }
    d
}

fn permutations(n: usize) -> Vec<Vec<usize>> {
    fn rec(cur: &mut Vec<usize>, used: &mut Vec<bool>, out: &mut Vec<Vec<usize>>) {
        if cur.len() == used.len() {
            out.push(cur.clone());
            return;
        }
        for i in 0..used.len() {
            if !used[i] {
                used[i] = true;
                cur.push(i);
                rec(cur, used, out);
                cur.pop();
                used[i] = false;
            }
        }
    }
    let mut out = vec![];
    if n <= 4 {
        rec(&mut vec![], &mut vec![false; n], &mut out);
    } else {
        out.push((0..n).collect());
        out.push((0..n).rev().collect());
    }
    out
}

fn check_layout(ctx: &Ctx, spec: &Spec, seed: u64, n_states: usize) {
    let mut r = Sm::derive(seed, &[13, hash_f64s(FNV0, &[spec.width() as f64, spec.comps.len() as f64])]);
    let mut b = Batch::default();
    let sp = match build_compound(spec) {
        Ok(s) => s,
        Err(e) => {
            ctx.inconclusive(format!("not constructible: {e}"));
            return;
        }
    };
    let direct = compound_ops(&sp, spec, false);
    check_law(ctx, &mut b, &mut r, spec, &direct, "compound", n_states);
    let erased = compound_ops(&sp, spec, true);
    check_law(ctx, &mut b, &mut r, spec, &erased, "compound-dyn", n_states / 2);
    // the weights are a public field: after a user changes them every operation (the
    // motion-check resolution included) must follow the new weights
    {
        let mut sp2 = sp.clone();
        let mut spec2 = spec.clone();
        for i in 0..spec2.comps.len() {
            let w = *r.pick(&[0.0, 1e-3, 1.0, 7.5, 50.0]);
            sp2.weights[i] = w;
            spec2.comps[i].weight = w;
        }
        let mutated = compound_ops(&sp2, &spec2, false);
        check_law(ctx, &mut b, &mut r, &spec2, &mutated, "compound-weights-changed", n_states / 3);
        b.count("layouts_with_mutated_weights", 1);
    }
    b.count(&format!("layouts[{}]", spec.comps.len()), 1);
    if b.samples.is_empty() {
        b.sample(json!({"layout": spec.describe(), "weights": spec.comps.iter().map(|c| c.weight).collect::<Vec<_>>() }));
    }
    ctx.merge(b);
}

/// SE2 / SE3 under test (typed interface), wrapped into Ops over flat states.
enum Se {
    Two(SE2StateSpace),
    Three(SE3StateSpace),
}
fn se_spec(se3: bool, w: f64, bounds: &Option<Vec<(f64, f64)>>) -> Spec {
    if se3 {
        Spec {
            wrap: Wrap::Compound,
            comps: vec![
                Comp { kind: CK::R { n: 3, bounds: bounds.clone() }, weight: 1.0, frac: None },
                Comp { kind: CK::So3 { bounds: None }, weight: w, frac: None },
            ],
        }
    } else {
        Spec {
            wrap: Wrap::Compound,
            comps: vec![
                Comp { kind: CK::R { n: 2, bounds: bounds.as_ref().map(|v| v[..2].to_vec()) }, weight: 1.0, frac: None },
                Comp { kind: CK::So2 { bounds: bounds.as_ref().map(|v| v[2]) }, weight: w, frac: None },
            ],
        }
    }
}
fn flat(s: &dyn oxmpl::base::state::State) -> Vec<f64> {
    let mut f = vec![];
    flatten_dyn(s, &mut f);
    f
}
fn se_ops<'a>(se: &'a Se, spec: &'a Spec) -> Ops<'a> {
    let mk2 = move |v: &[f64]| SE2State(compound_state(spec, v));
    let mk3 = move |v: &[f64]| SE3State(compound_state(spec, v));
    Ops {
        distance: Box::new(move |a, bb| match se {
            Se::Two(s) => s.distance(&mk2(a), &mk2(bb)),
            Se::Three(s) => s.distance(&mk3(a), &mk3(bb)),
        }),
        interpolate: Box::new(move |a, bb, t, scratch| match se {
            Se::Two(s) => {
                let mut o = mk2(scratch);
                s.interpolate(&mk2(a), &mk2(bb), t, &mut o);
                flat(&o)
            }
            Se::Three(s) => {
                let mut o = mk3(scratch);
                s.interpolate(&mk3(a), &mk3(bb), t, &mut o);
                flat(&o)
            }
        }),
        enforce: Box::new(move |a| match se {
            Se::Two(s) => {
                let mut o = mk2(a);
                s.enforce_bounds(&mut o);
                flat(&o)
            }
            Se::Three(s) => {
                let mut o = mk3(a);
                s.enforce_bounds(&mut o);
                flat(&o)
            }
        }),
        satisfies: Box::new(move |a| match se {
            Se::Two(s) => s.satisfies_bounds(&mk2(a)),
            Se::Three(s) => s.satisfies_bounds(&mk3(a)),
        }),
        sample: Box::new(move |rng| match se {
            Se::Two(s) => s.sample_uniform(rng).map(|x| flat(&x)).map_err(|e| format!("{e:?}")),
            Se::Three(s) => s.sample_uniform(rng).map(|x| flat(&x)).map_err(|e| format!("{e:?}")),
        }),
        lvs: match se {
            Se::Two(s) => s.get_longest_valid_segment_length(),
            Se::Three(s) => s.get_longest_valid_segment_length(),
        },
    }
}

/// SE2 / SE3 vs the explicit compound, bit for bit on every operation.
fn check_se(ctx: &Ctx, se3: bool, w: f64, bounds: Option<Vec<(f64, f64)>>, seed: u64, n_states: usize) {
    let mut r = Sm::derive(seed, &[1313, se3 as u64, w.to_bits()]);
    let mut b = Batch::default();
    let label = if se3 { "SE3" } else { "SE2" };
    let spec = se_spec(se3, w, &bounds);
    // the space under test, wrapped into Ops over flat states
    let se = if se3 {
        match SE3StateSpace::new(w, bounds.clone()) {
            Ok(s) => Se::Three(s),
            Err(e) => {
                ctx.inconclusive(format!("SE3 not constructible: {e:?}"));
                return;
            }
        }
    } else {
        match SE2StateSpace::new(w, bounds.clone()) {
            Ok(s) => Se::Two(s),
            Err(e) => {
                ctx.inconclusive(format!("SE2 not constructible: {e:?}"));
                return;
            }
        }
    };
    let ops = se_ops(&se, &spec);
    check_law(ctx, &mut b, &mut r, &spec, &ops, label, n_states);
    // and bit for bit against the explicit CompoundStateSpace
    if let Ok(csp) = build_compound(&spec) {
        let cops = compound_ops(&csp, &spec, false);
        let states = states_for(&mut r, &spec, n_states);
        for (i, a) in states.iter().enumerate() {
            let bb = &states[(i * 5 + 3) % states.len()];
            b.evaluations += 1;
            let t = r.f();
            let same = (ops.distance)(a, bb).to_bits() == (cops.distance)(a, bb).to_bits()
                && bits_eq(&(ops.interpolate)(a, bb, t, bb), &(cops.interpolate)(a, bb, t, a))
                && bits_eq(&(ops.enforce)(a), &(cops.enforce)(a))
                && (ops.satisfies)(a) == (cops.satisfies)(a);
            if !same {
                ctx.violate(&format!("differs-from-explicit-compound:{label}"), format!("weight {w}"), json!({"kind":"se-vs-compound","se3":se3,"weight":fj(w),"a":fjs(a),"b":fjs(bb),"t":fj(t)}));
            }
            b.count("se_vs_compound_checks", 1);
        }
        if ops.lvs.to_bits() != cops.lvs.to_bits() {
            ctx.violate(&format!("differs-from-explicit-compound:{label}"), format!("lvs {} vs {}", ops.lvs, cops.lvs), json!({"kind":"se-vs-compound","se3":se3,"weight":fj(w)}));
        }
    }
    b.count(&format!("se_settings[{label}]"), 1);
    ctx.merge(b);
}


// ------------------------------------------------------------------------------------------
// Nested compounds: a component of a compound may itself be a compound, an SE2 or an SE3
// space (every `StateSpace` is an `AnyStateSpace`). The law is the same at every level; the
// parent reaches such a child through the erased (`_dyn`) interface with a `CompoundState` /
// `SE2State` / `SE3State` behind the `dyn State`.
// ------------------------------------------------------------------------------------------
#[derive(Clone, Debug)]
enum NK {
    Leaf(Comp),
    Group(Vec<Node>),
    Se(bool, f64, Option<Vec<(f64, f64)>>),
}
#[derive(Clone, Debug)]
struct Node {
    kind: NK,
    /// weight of this node inside its parent (unused for the root)
    weight: f64,
}
impl Node {
    fn leaves(&self, out: &mut Vec<Comp>) {
        match &self.kind {
            NK::Leaf(c) => out.push(c.clone()),
            NK::Group(ch) => ch.iter().for_each(|c| c.leaves(out)),
            NK::Se(se3, w, b) => out.extend(se_spec(*se3, *w, b).comps),
        }
    }
    fn describe(&self) -> String {
        match &self.kind {
            NK::Leaf(c) => Spec { wrap: Wrap::Compound, comps: vec![c.clone()] }.describe(),
            NK::Group(ch) => format!("Group[{}]", ch.iter().map(|c| format!("{}*{}", c.weight, c.describe())).collect::<Vec<_>>().join(", ")),
            NK::Se(se3, w, b) => format!("{}(w={w},{})", if *se3 { "SE3" } else { "SE2" }, if b.is_some() { "bounded" } else { "unbounded" }),
        }
    }
}
enum BuiltSp {
    Leaf(CompSp, CK),
    Group(CompoundStateSpace, Vec<Built>),
    Se(Se, Spec),
}
struct Built {
    sp: BuiltSp,
    weight: f64,
    width: usize,
}
impl Built {
    fn new(n: &Node) -> Result<Built, String> {
        let sp = match &n.kind {
            NK::Leaf(c) => BuiltSp::Leaf(CompSp::build(c)?, c.kind.clone()),
            NK::Group(ch) => {
                let kids = ch.iter().map(Built::new).collect::<Result<Vec<_>, _>>()?;
                let subs = ch.iter().map(Built::erased).collect::<Result<Vec<_>, _>>()?;
                BuiltSp::Group(CompoundStateSpace::new(subs, ch.iter().map(|c| c.weight).collect()), kids)
            }
            NK::Se(se3, w, b) => BuiltSp::Se(
                if *se3 {
                    Se::Three(SE3StateSpace::new(*w, b.clone()).map_err(|e| format!("{e:?}"))?)
                } else {
                    Se::Two(SE2StateSpace::new(*w, b.clone()).map_err(|e| format!("{e:?}"))?)
                },
                se_spec(*se3, *w, b),
            ),
        };
        let mut l = vec![];
        n.leaves(&mut l);
        Ok(Built { sp, weight: n.weight, width: l.iter().map(|c| c.kind.width()).sum() })
    }
    /// the space as the parent holds it
    fn erased(n: &Node) -> Result<Box<dyn AnyStateSpace>, String> {
        Ok(match &n.kind {
            NK::Leaf(c) => crate::spec::build_comp(c)?,
            NK::Group(ch) => Box::new(CompoundStateSpace::new(ch.iter().map(Built::erased).collect::<Result<Vec<_>, _>>()?, ch.iter().map(|c| c.weight).collect())),
            NK::Se(true, w, b) => Box::new(SE3StateSpace::new(*w, b.clone()).map_err(|e| format!("{e:?}"))?),
            NK::Se(false, w, b) => Box::new(SE2StateSpace::new(*w, b.clone()).map_err(|e| format!("{e:?}"))?),
        })
    }
    fn state(&self, v: &[f64]) -> Box<dyn oxmpl::base::state::State> {
        match &self.sp {
            BuiltSp::Leaf(_, k) => crate::spec::comp_state(k, v),
            BuiltSp::Group(..) => Box::new(self.cstate(v)),
            BuiltSp::Se(Se::Two(_), spec) => Box::new(SE2State(compound_state(spec, v))),
            BuiltSp::Se(Se::Three(_), spec) => Box::new(SE3State(compound_state(spec, v))),
        }
    }
    fn cstate(&self, v: &[f64]) -> oxmpl::base::state::CompoundState {
        let BuiltSp::Group(_, kids) = &self.sp else { unreachable!() };
        let mut comps = vec![];
        let mut o = 0;
        for k in kids {
            comps.push(k.state(&v[o..o + k.width]));
            o += k.width;
        }
        oxmpl::base::state::CompoundState { components: comps }
    }
    /// typed operations of this node's own space
    fn distance(&self, a: &[f64], b: &[f64]) -> f64 {
        match &self.sp {
            BuiltSp::Leaf(c, _) => c.distance(a, b),
            BuiltSp::Group(sp, _) => sp.distance(&self.cstate(a), &self.cstate(b)),
            BuiltSp::Se(se, spec) => (se_ops(se, spec).distance)(a, b),
        }
    }
    fn interpolate(&self, a: &[f64], b: &[f64], t: f64, scratch: &[f64]) -> Vec<f64> {
        match &self.sp {
            BuiltSp::Leaf(c, _) => c.interpolate(a, b, t),
            BuiltSp::Group(sp, _) => {
                let mut o = self.cstate(scratch);
                sp.interpolate(&self.cstate(a), &self.cstate(b), t, &mut o);
                flat(&o)
            }
            BuiltSp::Se(se, spec) => (se_ops(se, spec).interpolate)(a, b, t, scratch),
        }
    }
    fn enforce(&self, a: &[f64]) -> Vec<f64> {
        match &self.sp {
            BuiltSp::Leaf(c, _) => c.enforce(a),
            BuiltSp::Group(sp, _) => {
                let mut o = self.cstate(a);
                sp.enforce_bounds(&mut o);
                flat(&o)
            }
            BuiltSp::Se(se, spec) => (se_ops(se, spec).enforce)(a),
        }
    }
    fn satisfies(&self, a: &[f64]) -> bool {
        match &self.sp {
            BuiltSp::Leaf(c, _) => c.satisfies(a),
            BuiltSp::Group(sp, _) => sp.satisfies_bounds(&self.cstate(a)),
            BuiltSp::Se(se, spec) => (se_ops(se, spec).satisfies)(a),
        }
    }
    fn sample(&self, rng: &mut ChaCha8Rng) -> Result<Vec<f64>, String> {
        match &self.sp {
            BuiltSp::Leaf(c, _) => c.sample(rng),
            BuiltSp::Group(sp, _) => sp.sample_uniform(rng).map(|s| flat(&s)).map_err(|e| format!("{e:?}")),
            BuiltSp::Se(se, spec) => (se_ops(se, spec).sample)(rng),
        }
    }
    fn lvs(&self) -> f64 {
        match &self.sp {
            BuiltSp::Leaf(c, _) => c.lvs(),
            BuiltSp::Group(sp, _) => sp.get_longest_valid_segment_length(),
            BuiltSp::Se(se, spec) => se_ops(se, spec).lvs,
        }
    }
}

/// The composition law at one group of a nested layout (and, recursively, at its sub-groups):
/// the group's operation vs its children's own operations. `erased` runs the group itself
/// through the `_dyn` interface as well.
fn check_group(ctx: &Ctx, b: &mut Batch, r: &mut Sm, g: &Built, tree: &str, states: &[Vec<f64>], depth: usize, erased: bool) {
    let BuiltSp::Group(sp, kids) = &g.sp else { return };
    let mut offs = vec![];
    let mut acc = 0;
    for k in kids {
        offs.push(acc);
        acc += k.width;
    }
    let label = if erased { "nested-dyn" } else { "nested" };
    let rep = |sig: &str, detail: String, a: &[f64], bb: &[f64], t: f64| {
        ctx.violate(&format!("{sig}:{label}"), detail, json!({"kind":"nested","tree":tree,"depth":depth,"a":fjs(a),"b":fjs(bb),"t":fj(t),"via":label}));
    };
    let sl = |v: &[f64], i: usize| v[offs[i]..offs[i] + kids[i].width].to_vec();
    let terms: Vec<f64> = kids.iter().map(|k| k.lvs() * k.weight).collect();
    let got_lvs = if erased { sp.get_longest_valid_segment_length_dyn() } else { sp.get_longest_valid_segment_length() };
    b.evaluations += 1;
    let (ok, want) = wnorm_matches(got_lvs, &terms);
    if !ok {
        rep("resolution-law", format!("longest valid segment {got_lvs} != sqrt(sum (w_i lvs_i)^2) = {want}"), &[], &[], 0.0);
    }
    for (ia, a) in states.iter().enumerate() {
        b.evaluations += 1;
        let sa = g.cstate(a);
        let enf = match guarded(|| {
            let mut o = g.cstate(a);
            if erased {
                sp.enforce_bounds_dyn(&mut o);
            } else {
                sp.enforce_bounds(&mut o);
            }
            flat(&o)
        }) {
            Ok(x) => x,
            Err(e) => {
                rep("panic", e.short(), a, &[], 0.0);
                continue;
            }
        };
        let mut want = vec![];
        let mut want_sat = true;
        for (i, k) in kids.iter().enumerate() {
            want.extend(k.enforce(&sl(a, i)));
            want_sat &= k.satisfies(&sl(a, i));
        }
        if !bits_eq(&enf, &want) {
            rep("enforce-not-componentwise", format!("group {enf:?} children {want:?}"), a, &[], 0.0);
        }
        let sat = if erased { sp.satisfies_bounds_dyn(&sa) } else { sp.satisfies_bounds(&sa) };
        if sat != want_sat {
            rep("satisfies-not-componentwise", format!("group {sat} children {want_sat}"), a, &[], 0.0);
        }
        for k in 0..4 {
            let mut mixed;
            let bb: &Vec<f64> = if k < 3 {
                &states[(ia * 7 + k * 13 + 1) % states.len()]
            } else {
                // a partner that coincides with `a` in all children but one
                let other = &states[(ia * 5 + k) % states.len()];
                let ci = (ia + k) % kids.len();
                mixed = a.clone();
                mixed[offs[ci]..offs[ci] + kids[ci].width].copy_from_slice(&other[offs[ci]..offs[ci] + kids[ci].width]);
                &mixed
            };
            b.evaluations += 1;
            let sb = g.cstate(bb);
            let res = guarded(|| if erased { sp.distance_dyn(&sa, &sb) } else { sp.distance(&sa, &sb) });
            let d = match res {
                Ok(d) => d,
                Err(e) => {
                    rep("panic", e.short(), a, bb, 0.0);
                    continue;
                }
            };
            let terms: Vec<f64> = kids.iter().enumerate().map(|(i, k)| k.distance(&sl(a, i), &sl(bb, i)) * k.weight).collect();
            let (ok, want_d) = wnorm_matches(d, &terms);
            if !ok {
                rep("distance-law", format!("group distance {d} != sqrt(sum (w_i d_i)^2) = {want_d}"), a, bb, 0.0);
            }
            let scratch = &states[(ia * 11 + k * 3 + 5) % states.len()];
            for t in [0.0, r.f(), 1.0, 1.25] {
                let it = match guarded(|| {
                    let mut o = g.cstate(scratch);
                    if erased {
                        sp.interpolate_dyn(&sa, &sb, t, &mut o);
                    } else {
                        sp.interpolate(&sa, &sb, t, &mut o);
                    }
                    flat(&o)
                }) {
                    Ok(x) => x,
                    Err(e) => {
                        rep("panic", e.short(), a, bb, t);
                        continue;
                    }
                };
                let mut want = vec![];
                for (i, k) in kids.iter().enumerate() {
                    want.extend(k.interpolate(&sl(a, i), &sl(bb, i), t, &sl(scratch, i)));
                }
                if !bits_eq(&it, &want) {
                    rep("interpolate-not-componentwise", format!("group {it:?} children {want:?}"), a, bb, t);
                }
            }
            if terms.iter().any(|x| *x != 0.0) {
                b.distinct.insert(hash_f64s(hash_f64s(hash_f64s(FNV0, &[depth as f64, kids.len() as f64, 0.5]), a), bb));
            }
            b.count("nested_pair_checks", 1);
        }
    }
    // sampling: the group's sample must be the children's own samples drawn in some fixed order
    // (bit for bit); where no order reproduces it the weaker form is judged: every child's part
    // lies within that child's bounds, and the outcome (error or not) agrees with the children
    let child_errs: Vec<bool> = kids.iter().map(|k| (0..4u64).all(|s| k.sample(&mut ChaCha8Rng::seed_from_u64(90 + s)).is_err())).collect();
    let perms = permutations(kids.len());
    let mut alive = vec![true; perms.len()];
    let mut oks = 0u64;
    let mut out_of_bounds: Option<String> = None;
    'seeds: for s in 0..6u64 {
        let mut r1 = ChaCha8Rng::seed_from_u64(2000 + s);
        let mut rp: Vec<ChaCha8Rng> = perms.iter().map(|_| ChaCha8Rng::seed_from_u64(2000 + s)).collect();
        for _ in 0..3 {
            b.evaluations += 1;
            let got = guarded(|| if erased { sp.sample_uniform_dyn(&mut r1).map(|x| flat(&*x)).map_err(|e| format!("{e:?}")) } else { sp.sample_uniform(&mut r1).map(|x| flat(&x)).map_err(|e| format!("{e:?}")) });
            let got = match got {
                Ok(g) => g,
                Err(e) => {
                    rep("panic", e.short(), &[], &[], 0.0);
                    break 'seeds;
                }
            };
            match got {
                Err(e) => {
                    if !child_errs.iter().any(|x| *x) {
                        rep("sample-outcome-differs", format!("group sampling fails with {e} although every child samples fine"), &[], &[], 0.0);
                    }
                    break 'seeds;
                }
                Ok(gv) => {
                    if child_errs.iter().any(|x| *x) {
                        rep("sample-outcome-differs", format!("group sampling succeeds ({gv:?}) although a child cannot be sampled"), &[], &[], 0.0);
                        break 'seeds;
                    }
                    oks += 1;
                    for (i, k) in kids.iter().enumerate() {
                        if !k.satisfies(&sl(&gv, i)) {
                            out_of_bounds = Some(format!("child {i} of the group sample {gv:?} is outside that child's bounds"));
                        }
                    }
                    for (pi, p) in perms.iter().enumerate() {
                        if !alive[pi] {
                            continue;
                        }
                        let mut want = vec![0.0; gv.len()];
                        let mut ok = true;
                        for &ci in p {
                            match kids[ci].sample(&mut rp[pi]) {
                                Ok(v) => want[offs[ci]..offs[ci] + kids[ci].width].copy_from_slice(&v),
                                Err(_) => ok = false,
                            }
                        }
                        if !ok || !bits_eq(&gv, &want) {
                            alive[pi] = false;
                        }
                    }
                }
            }
        }
    }
    if oks > 0 {
        if alive.iter().any(|x| *x) {
            b.count("nested_sample_checks_bit_exact", oks);
            b.count("nested_sample_checks", oks);
        } else if let Some(d) = out_of_bounds {
            rep("sample-not-componentwise", format!("no order of child draws reproduces the group sample bit for bit, and {d}"), &[], &[], 0.0);
        } else {
            b.count("nested_sample_checks_bounds_only", oks);
            b.count("nested_sample_checks", oks);
        }
    }
    b.count(&format!("nested_groups[depth {depth}]"), 1);
    if !erased {
        for (i, k) in kids.iter().enumerate() {
            if matches!(k.sp, BuiltSp::Group(..)) {
                let sub: Vec<Vec<f64>> = states.iter().map(|s| sl(s, i)).collect();
                check_group(ctx, b, r, k, tree, &sub, depth + 1, false);
            }
        }
    }
}

fn random_tree(r: &mut Sm, ks: &[CK], depth: usize) -> Node {
    let weights = [0.0, 1e-3, 0.3, 1.0, 1.0, 50.0, -0.5];
    let roll = r.below(10);
    let kind = if depth > 0 && roll < 4 {
        let n = 1 + r.below(3);
        NK::Group((0..n).map(|_| random_tree(r, ks, depth - 1)).collect())
    } else if roll < 7 {
        let se3 = r.bool(0.5);
        let w = *r.pick(&[0.0, 0.3, 1.0, 2.0]);
        let b = if r.bool(0.8) {
            Some(if se3 { vec![(-1.0, 1.0), (0.0, 5.0), (-3.0, -1.0)] } else { vec![(-1.0, 1.0), (0.0, 5.0), *r.pick(&[(-1.0, 2.0), (-PI, PI), (-1.0, 6.0)])] })
        } else {
            None
        };
        NK::Se(se3, w, b)
    } else {
        NK::Leaf(Comp { kind: r.pick(ks).clone(), weight: 1.0, frac: if r.bool(0.3) { Some(r.log_range(0.01, 1.0)) } else { None } })
    };
    Node { kind, weight: *r.pick(&weights) }
}

fn check_nested(ctx: &Ctx, root: &Node, seed: u64, n_states: usize) {
    let tree = root.describe();
    let mut r = Sm::derive(seed, &[1314, hash_f64s(FNV0, &tree.bytes().map(|x| x as f64).collect::<Vec<_>>())]);
    let mut b = Batch::default();
    let built = match Built::new(root) {
        Ok(x) => x,
        Err(e) => {
            ctx.inconclusive(format!("nested layout not constructible: {e}"));
            return;
        }
    };
    let mut leaves = vec![];
    root.leaves(&mut leaves);
    let flat_spec = Spec { wrap: Wrap::Compound, comps: leaves };
    let states = states_for(&mut r, &flat_spec, n_states);
    check_group(ctx, &mut b, &mut r, &built, &tree, &states, 0, false);
    check_group(ctx, &mut b, &mut r, &built, &tree, &states[..states.len() / 2], 0, true);
    b.count("nested_layouts", 1);
    if b.samples.is_empty() {
        b.sample(json!({"nested_layout": tree}));
    }
    ctx.merge(b);
}

pub fn run(tier: Tier, seed: u64) -> i32 {
    let ctx = Ctx::new("C13", tier, seed, "exploration");
    let mut r = Sm::derive(seed, &[13]);
    let ks = kinds(&mut r);
    let weights = [0.0, 1e-3, 1.0, 50.0];
    let mut layouts: Vec<Spec> = vec![];
    let mk = |idx: &[usize], r: &mut Sm| Spec {
        wrap: Wrap::Compound,
        comps: idx.iter().map(|i| Comp { kind: ks[*i].clone(), weight: *r.pick(&weights), frac: if r.bool(0.3) { Some(r.log_range(0.01, 1.0)) } else { None } }).collect(),
    };
    let n = ks.len();
    for a in 0..n {
        layouts.push(mk(&[a], &mut r));
        for bq in 0..n {
            layouts.push(mk(&[a, bq], &mut r));
            if tier == Tier::Thorough {
                for c in 0..n {
                    layouts.push(mk(&[a, bq, c], &mut r));
                    for d in 0..n {
                        layouts.push(mk(&[a, bq, c, d], &mut r));
                    }
                }
            }
        }
    }
    if tier == Tier::Quick {
        for _ in 0..60 {
            let len = 3 + r.below(2);
            let idx: Vec<usize> = (0..len).map(|_| r.below(n)).collect();
            layouts.push(mk(&idx, &mut r));
        }
    }
    let n_states = tier.pick(60, 100);
    let se_jobs: Vec<(bool, f64, Option<Vec<(f64, f64)>>)> = {
        let mut v = vec![];
        for se3 in [false, true] {
            for w in [0.0, 1e-3, 0.3, 1.0, 50.0, -0.5] {
                v.push((se3, w, None));
                v.push((se3, w, Some(if se3 { vec![(-1.0, 1.0), (0.0, 5.0), (-3.0, -1.0)] } else { vec![(-1.0, 1.0), (0.0, 5.0), (-1.0, 2.0)] })));
                if !se3 {
                    v.push((se3, w, Some(vec![(-10.0, 10.0), (-10.0, 10.0), (-PI, PI)])));
                    v.push((se3, w, Some(vec![(-10.0, 10.0), (-10.0, 10.0), (-4.0, 4.0)])));
                    // yaw intervals at least a full turn wide that do not contain [-pi, pi]
                    v.push((se3, w, Some(vec![(-10.0, 10.0), (-10.0, 10.0), (0.0, 2.0 * PI)])));
                    v.push((se3, w, Some(vec![(-10.0, 10.0), (-10.0, 10.0), (-1.0, 6.0)])));
                    v.push((se3, w, Some(vec![(-10.0, 10.0), (-10.0, 10.0), (-8.0, 0.5)])));
                }
            }
        }
        v
    };
    // nested layouts: a few fixed shapes and random trees up to three levels deep
    let nested: Vec<Node> = {
        let leaf = |i: usize, w: f64| Node { kind: NK::Leaf(Comp { kind: ks[i].clone(), weight: 1.0, frac: None }), weight: w };
        let grp = |ch: Vec<Node>, w: f64| Node { kind: NK::Group(ch), weight: w };
        let se = |se3: bool, w: f64, bounded: bool, wt: f64| Node {
            kind: NK::Se(se3, w, if bounded { Some(if se3 { vec![(-1.0, 1.0), (0.0, 5.0), (-3.0, -1.0)] } else { vec![(-1.0, 1.0), (0.0, 5.0), (-1.0, 2.0)] }) } else { None }),
            weight: wt,
        };
        let mut v = vec![
            grp(vec![leaf(1, 1.0), grp(vec![leaf(4, 1.0), leaf(0, 2.0)], 0.5)], 1.0),
            grp(vec![grp(vec![leaf(1, 1.0), leaf(6, 0.3)], 1.0), leaf(4, 1.0)], 1.0),
            grp(vec![se(false, 0.5, true, 1.0), leaf(0, 1.0)], 1.0),
            grp(vec![leaf(5, 1.0), se(true, 1.0, true, 2.0)], 1.0),
            grp(vec![grp(vec![se(false, 1.0, true, 1.0), leaf(3, 0.0)], 1.0), grp(vec![leaf(2, 1.0), grp(vec![leaf(4, 1.0), leaf(6, 1.0)], 50.0)], 1e-3)], 1.0),
            grp(vec![se(true, 0.3, false, 1.0), leaf(1, 1.0)], 1.0),
            grp(vec![grp(vec![leaf(0, -0.5)], 1.0)], 1.0),
        ];
        let mut rr = Sm::derive(seed, &[13, 14]);
        for _ in 0..tier.pick(40, 600) {
            let n = 1 + rr.below(3);
            v.push(grp((0..n).map(|_| random_tree(&mut rr, &ks, 2)).collect(), 1.0));
        }
        v
    };
    let total = layouts.len() + se_jobs.len() + nested.len();
    par_shards(total, crate::util::n_threads(), |i| {
        if i < layouts.len() {
            check_layout(&ctx, &layouts[i], seed.wrapping_add(i as u64), n_states);
        } else if i >= layouts.len() + se_jobs.len() {
            check_nested(&ctx, &nested[i - layouts.len() - se_jobs.len()], seed.wrapping_add(i as u64), tier.pick(30, 60));
        } else {
            let (se3, w, bnd) = &se_jobs[i - layouts.len()];
            check_se(&ctx, *se3, *w, bnd.clone(), seed.wrapping_add(i as u64), tier.pick(200, 2000));
        }
    });
    for k in ["layouts[1]", "layouts[2]", "layouts[3]", "layouts[4]", "se_settings[SE2]", "se_settings[SE3]", "sample_checks", "se_vs_compound_checks", "pair_checks", "nested_layouts", "nested_pair_checks", "nested_groups[depth 1]", "nested_groups[depth 2]", "nested_sample_checks"] {
        ctx.require(k);
    }
    ctx.finish(
        "cases = operations (distance, interpolate at 4 values of t, enforce, satisfies, sample, resolution) on a compound / SE2 / SE3 space compared with the same operation carried out on its typed component spaces; layouts: all ordered 1-2 component layouts over 7 component kinds plus random 3-4 component ones (quick), all 2800 ordered layouts of 1-4 components (thorough); nested layouts (a compound whose components are compounds / SE2 / SE3 spaces, up to three levels; 47 quick, 607 thorough) are judged by the same law at every group, through the typed and the erased interface; distinct+non-trivial = distinct (layout size, a, b) with some positive component distance",
        &[
            "distance and resolution compared to 1e-12 relative, everything else bit for bit",
            "component operations themselves are judged by C09-C12, not here",
        ],
        json!({"miri": ctx.fold_miri_summary(), "layouts": layouts.len(), "se_settings": se_jobs.len(), "nested_layouts": nested.len(), "exhaustive_layouts": tier == Tier::Thorough}),
    )
}
