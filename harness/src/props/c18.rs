//! C18 PRM roadmap is a faithful graph and queries are complete on it.
use crate::drv::{Drv, ErrKind, Res, Snap, MS};
use crate::monitor::{Ev, Rec, SampleMode, WorldEval};
use crate::oracle::{len_tol, Accepted};
use crate::spec::{Kit, ALL_WRAPS};
use crate::util::{fjs, par_shards, parse_fs, Batch, Ctx, Sm, Tier};
use crate::with_kit;
use crate::world::{alphabet, gen_params, gen_problem, gen_spec, rand_state, GenOpts, GoalSpec, Hostility, PKind, PParams, Problem};
use oxmpl::base::space::StateSpace;
use serde_json::{json, Value};
use std::collections::VecDeque;

#[derive(Clone, Debug)]
pub struct PrmCase {
    pub problem: Problem,
    pub params: PParams,
    pub n_samples: u64,
    pub script: Option<Vec<Vec<f64>>>,
    pub start2: Vec<f64>,
    pub goal2: GoalSpec,
    /// when set, the connection radius is the space's own distance between these two states,
    /// so that sample pairs lie *exactly* one radius apart (strictness of `<`)
    pub radius_from: Option<(Vec<f64>, Vec<f64>)>,
    /// the radius is this many ulps above the distance of the `radius_from` pair (0: exact tie):
    /// the pair is then inside the radius by the narrowest possible margin
    pub radius_ulps: u64,
}
impl PrmCase {
    pub fn to_json(&self) -> Value {
        json!({"kind":"prm","problem":self.problem.to_json(),"params":self.params.to_json(),"n_samples":self.n_samples,
               "script":self.script.as_ref().map(|s| s.iter().map(|x| fjs(x)).collect::<Vec<_>>()),
               "start2":fjs(&self.start2),"goal2":self.goal2.to_json(),
               "radius_from":self.radius_from.as_ref().map(|(a,b)| json!([fjs(a),fjs(b)])),"radius_ulps":self.radius_ulps})
    }
    pub fn from_json(v: &Value) -> PrmCase {
        PrmCase {
            problem: Problem::from_json(&v["problem"]),
            params: PParams::from_json(&v["params"]),
            n_samples: v["n_samples"].as_u64().unwrap_or(10),
            script: v["script"].as_array().map(|a| a.iter().map(parse_fs).collect()),
            start2: parse_fs(&v["start2"]),
            goal2: GoalSpec::from_json(&v["goal2"]),
            radius_from: v["radius_from"].as_array().map(|a| (parse_fs(&a[0]), parse_fs(&a[1]))),
            radius_ulps: v["radius_ulps"].as_u64().unwrap_or(0),
        }
    }
}

fn bits_eq(a: &[f64], b: &[f64]) -> bool {
    a.len() == b.len() && a.iter().zip(b).all(|(x, y)| x.to_bits() == y.to_bits())
}

pub fn make_case(r: &mut Sm, idx: usize, exhaustive: Option<(usize, usize)>) -> PrmCase {
    let wrap = ALL_WRAPS[idx % 6];
    let spec = gen_spec(r, wrap, &GenOpts { nonconvex: false, fracs: true, odd_weights: true, max_dim: 3 });
    let host = *r.pick(&[Hostility::Free, Hostility::Free, Hostility::Plain, Hostility::Plain, Hostility::GoalOverlap]);
    let mut problem = gen_problem(r, &spec, host);
    let diam = spec.diameter().max(1e-9);
    problem.goal.radius = (problem.goal.radius * 2.0).min(0.3 * diam);
    let mut params = gen_params(r, &spec, PKind::Prm, false);
    // from "isolated nodes" to "complete graph"
    params.connection_radius = diam * match r.below(6) {
        0 => r.log_range(0.005, 0.05),
        1 => r.range(1.0, 3.0),
        _ => r.log_range(0.05, 0.8),
    };
    // degenerate radii: nothing is "within" NaN, 0 or a negative radius; everything is within inf
    match r.below(40) {
        0 => params.connection_radius = f64::NAN,
        1 => params.connection_radius = f64::INFINITY,
        2 => params.connection_radius = 0.0,
        3 => params.connection_radius = -diam,
        _ => {}
    }
    let n_samples = (r.log_range(1.0, 120.0)) as u64;
    let script = match exhaustive {
        Some((code, depth)) => {
            let al = alphabet(r, &problem, 3);
            let base = al.len().min(6);
            let mut c = code;
            Some((0..depth).map(|_| { let l = c % base; c /= base; al[l].clone() }).collect::<Vec<_>>())
        }
        None => {
            if r.bool(0.4) {
                let al = alphabet(r, &problem, 4);
                let len = 1 + r.below(40);
                Some((0..len).map(|_| al[r.below(al.len())].clone()).collect::<Vec<_>>())
            } else {
                None
            }
        }
    };
    // bound the work: n^2 motion checks of up to radius/(0.1 lvs) queries each
    let lvs = crate::refm::ref_lvs(&spec).max(1e-12);
    let per_motion = (params.connection_radius.min(diam) / (0.1 * lvs)).ceil().max(1.0);
    let cap = ((200_000.0 / per_motion).sqrt() as u64).max(2);
    let script = script.map(|s| s.into_iter().take(cap as usize).collect::<Vec<_>>());
    let n_samples = match &script {
        Some(s) => s.len() as u64,
        None => n_samples.max(1).min(cap),
    };
    let mut start2 = rand_state(r, &spec);
    let goal2 = GoalSpec { centre: rand_state(r, &spec), radius: problem.goal.radius, mode: crate::world::GoalMode::Centre, fail_at: None, window: None };
    // exact ties: radius = distance between two scripted samples; sometimes the second start is
    // a scripted sample too
    let mut radius_from = None;
    if let Some(sc) = &script {
        if sc.len() >= 2 && r.bool(0.3) {
            let a = sc[r.below(sc.len())].clone();
            let b = sc[r.below(sc.len())].clone();
            if a != b {
                radius_from = Some((a, b));
            }
            if r.bool(0.5) {
                start2 = sc[r.below(sc.len())].clone();
            }
        }
    }
    let radius_ulps = if radius_from.is_some() && r.bool(0.5) { 1 + r.below(3) as u64 } else { 0 };
    PrmCase { problem, params, n_samples, script, start2, goal2, radius_from, radius_ulps }
}

/// Reference multi-source BFS on the snapshot graph; returns the minimum number of milestones
/// on a path from a source to a target (None if unreachable).
fn ref_bfs(adj: &[Vec<usize>], sources: &[usize], targets: &[bool]) -> Option<usize> {
    let n = adj.len();
    let mut dist = vec![usize::MAX; n];
    let mut q = VecDeque::new();
    for &s in sources {
        if dist[s] == usize::MAX {
            dist[s] = 1;
            q.push_back(s);
        }
    }
    let mut best: Option<usize> = None;
    while let Some(u) = q.pop_front() {
        if targets[u] {
            best = Some(best.map_or(dist[u], |b| b.min(dist[u])));
        }
        for &v in &adj[u] {
            if v < n && dist[v] == usize::MAX {
                dist[v] = dist[u] + 1;
                q.push_back(v);
            }
        }
    }
    best
}

struct Q<'a, K: Kit> {
    ctx: &'a Ctx,
    kit: &'a K,
    sp: &'a K::SP,
    case: &'a PrmCase,
}
impl<'a, K: Kit> Q<'a, K> {
    fn viol(&self, sig: &str, detail: String) {
        let mut v = self.case.to_json();
        v["property"] = json!("C18");
        self.ctx.violate(sig, detail, v);
    }
    fn d(&self, a: &[f64], b: &[f64]) -> f64 {
        self.sp.distance(&self.kit.unflat(a), &self.kit.unflat(b))
    }
}

/// Judge one query (solve) against the reference on the snapshot graph.
fn judge_query<K: Kit>(q: &Q<K>, b: &mut Batch, road: &[(Vec<f64>, Vec<usize>)], eval: &WorldEval<K>, start: &[f64], goal: &GoalSpec, res: &Res, events: &[Rec], label: &str) {
    let r = q.case.params.connection_radius;
    let n = road.len();
    let start_s = q.kit.unflat(start);
    let start_valid = eval.valid(&start_s, start);
    b.count(&format!("queries[{label}]"), 1);
    if n == 0 {
        if *res != Res::Err(ErrKind::UnsampledStateSpace) {
            q.viol("empty-roadmap-query-not-reported", format!("{label}: roadmap is empty but solve returned {}", res.short()));
        }
        return;
    }
    if !start_valid {
        if *res != Res::Err(ErrKind::InvalidStartState) {
            q.viol("invalid-start-not-reported", format!("{label}: start invalid but solve returned {}", res.short()));
        }
        return;
    }
    let gc = q.kit.unflat(&goal.centre);
    let targets: Vec<bool> = road.iter().map(|(s, _)| q.sp.distance(&q.kit.unflat(s), &gc) <= goal.radius).collect();
    // Start links. The planner's own motion check decides, and with slivers thinner than the
    // resolution another check of the same call can be rejected on a point that this check
    // stepped over, so the log only brackets the set: `s_min` (within the radius and no query
    // at all rejected on the motion => certainly linked) and `s_max` (within the radius).
    let acc = Accepted::<K>::from_log(q.kit, q.sp, events, start);
    let mut s_min = vec![];
    let mut s_max = vec![];
    for (i, (s, _)) in road.iter().enumerate() {
        let (d1, d2) = (q.d(start, s), q.d(s, start));
        if d1.min(d2) < r {
            s_max.push(i);
        }
        if d1.max(d2) < r && !acc.rejected_on(q.kit, q.sp, &start_s, &q.kit.unflat(s)) {
            s_min.push(i);
        }
    }
    let adj: Vec<Vec<usize>> = road.iter().map(|(_, e)| e.clone()).collect();
    let ref_min_sources = ref_bfs(&adj, &s_min, &targets);
    let ref_max_sources = ref_bfs(&adj, &s_max, &targets);
    if s_min.len() == s_max.len() {
        b.count("queries_with_exact_start_links", 1);
    }
    match res {
        Res::Path(p) => {
            b.count("query_paths", 1);
            if p.len() >= 3 {
                b.distinct.insert(super::paths::hash_path(p));
            }
            if !bits_eq(&p[0], start) {
                q.viol("path-does-not-start-at-start", format!("{label}: {:?} vs {:?}", p[0], start));
            }
            if p.len() < 2 {
                q.viol("path-without-milestone", format!("{label}: path has {} states", p.len()));
                return;
            }
            // milestones on the path must be roadmap nodes, consecutively linked
            let mut idx = vec![];
            for s in &p[1..] {
                match road.iter().position(|(m, _)| bits_eq(m, s)) {
                    Some(i) => idx.push(i),
                    None => {
                        q.viol("path-state-is-not-a-milestone", format!("{label}: {:?}", s));
                        return;
                    }
                }
            }
            for w in 0..idx.len() - 1 {
                // duplicates of a milestone share their bits: accept any linked pair of copies
                let (sa, sb) = (&road[idx[w]].0, &road[idx[w + 1]].0);
                let linked = road.iter().enumerate().any(|(i, (m, e))| bits_eq(m, sa) && e.iter().any(|k| *k < n && bits_eq(&road[*k].0, sb) && *k != i));
                if !linked {
                    q.viol("path-hop-is-not-a-roadmap-link", format!("{label}: milestones {} -> {}", idx[w], idx[w + 1]));
                }
            }
            let d0 = q.d(start, &p[1]);
            let tol = len_tol(q.kit, d0.max(r).max(4.0 * crate::oracle::mag(q.kit.spec(), &[start, &p[1]])));
            let d0 = d0.min(q.d(&p[1], start));
            if !(d0 < r) {
                q.viol("start-connection-beyond-radius", format!("{label}: first hop {d0} is not below the radius {r}"));
            }
            let lvs = q.sp.get_longest_valid_segment_length();
            let (gap, _, l) = acc.max_gap(q.kit, q.sp, &start_s, &q.kit.unflat(&p[1]));
            if !(gap <= lvs + tol + 1e-9 * (1.0 + l)) {
                q.viol("start-connection-not-motion-checked", format!("{label}: gap {gap} > lvs {lvs} on the first hop (length {l})"));
            }
            if !targets[*idx.last().unwrap()] {
                q.viol("path-does-not-end-in-goal", format!("{label}: last milestone {}", idx.last().unwrap()));
            }
            match ref_max_sources {
                None => q.viol("query-succeeded-although-unreachable", format!("{label}: reference BFS finds no connection from any of the {} milestones within the radius to the goal milestones", s_max.len())),
                Some(lo) => {
                    b.count("hop_minimality_checks", 1);
                    if idx.len() < lo {
                        q.viol("path-shorter-than-possible", format!("{label}: path visits {} milestones, the minimum over all possible start links is {lo}", idx.len()));
                    }
                    if let Some(hi) = ref_min_sources {
                        if idx.len() > hi {
                            q.viol("path-not-hop-minimal", format!("{label}: path visits {} milestones, but {hi} suffice using start links whose motion had no rejected query", idx.len()));
                        }
                        if lo == hi {
                            b.count("hop_minimality_exact", 1);
                        }
                    }
                }
            }
        }
        Res::Err(ErrKind::NoSolutionFound) => {
            b.count("query_nosolution", 1);
            if let Some(m) = ref_min_sources {
                q.viol("query-failed-although-connected", format!("{label}: a connection through {m} milestones exists ({} certain start links, {} goal milestones)", s_min.len(), targets.iter().filter(|t| **t).count()));
            } else {
                b.count("unreachable_confirmed_by_reference", 1);
            }
        }
        Res::Panic { .. } | Res::Budget => {}
        other => q.viol("unexpected-query-result", format!("{label}: {}", other.short())),
    }
}

fn run_case<K: Kit>(ctx: &Ctx, b: &mut Batch, kit: &K, case: &PrmCase) {
    b.evaluations += 1;
    crate::watch::set_case(case.to_json());
    let Ok(eval) = WorldEval::<K>::new(kit, &case.problem.world) else { return };
    let sp = &eval.sp;
    oxmpl::verif::arm(0);
    let build_secs = (case.n_samples as f64 - 0.5) * 1e-3;
    let mut case_owned = case.clone();
    if let Some((a, bq)) = &case.radius_from {
        let dr = sp.distance(&kit.unflat(a), &kit.unflat(bq));
        if dr > 0.0 && dr.is_finite() {
            case_owned.params.connection_radius = f64::from_bits(dr.to_bits() + case.radius_ulps);
            b.count(if case.radius_ulps == 0 { "cases_with_exact_tie_radius" } else { "cases_with_radius_ulps_above_a_pair_distance" }, 1);
        }
    }
    let case = &case_owned;
    let q = Q { ctx, kit, sp, case };
    let Ok(mut d) = Drv::new(kit, &case.params, build_secs) else { return };
    d.log.borrow_mut().budget = 3_000_000;
    let mode = match &case.script {
        Some(s) => SampleMode::Scripted(s.clone()),
        None => SampleMode::PlannerRng,
    };
    let Ok(inst) = d.install(&case.problem, mode) else { return };
    if d.setup(inst) != Res::Done {
        return;
    }
    {
        let mut l = d.log.borrow_mut();
        l.tick_sample = MS;
        l.tick_valid = 0;
    }
    let mark = d.log.borrow().recs.len();
    let r1 = d.construct_roadmap(true);
    if r1 != Res::Done {
        if !matches!(r1, Res::Budget | Res::Panic { .. }) {
            q.viol("construct-roadmap-failed", r1.short());
        }
        return;
    }
    let build_events: Vec<Rec> = d.log.borrow().recs[mark..].to_vec();
    let Snap::Roadmap(road) = d.snapshot() else { return };
    let n = road.len();
    b.count("roadmaps", 1);
    b.count("milestones", n as u64);
    b.distinct.insert(d.snapshot().hash());

    // 1. milestones = accepted samples, in order
    let mut expected: Vec<Vec<f64>> = vec![];
    let mut drawn = 0u64;
    let mut i = 0;
    while i < build_events.len() {
        if let Ev::Uniform(s) = &build_events[i].ev {
            drawn += 1;
            // the first validity query after the sample is the sample itself
            let mut k = i + 1;
            while k < build_events.len() && !matches!(build_events[k].ev, Ev::Valid(..) | Ev::Uniform(_)) {
                k += 1;
            }
            if k < build_events.len() {
                if let Ev::Valid(f, ok) = &build_events[k].ev {
                    if bits_eq(f, s) && *ok {
                        expected.push(s.clone());
                    }
                }
            }
        }
        i += 1;
    }
    b.count("samples_drawn", drawn);
    // (how many samples fit into the build time is C06's business; recorded only)
    if drawn == case.n_samples {
        b.count("builds_with_exactly_the_budgeted_samples", 1);
    }
    if expected.len() != n || expected.iter().zip(road.iter()).any(|(e, (m, _))| !bits_eq(e, m)) {
        q.viol("milestones-are-not-the-accepted-samples", format!("{} accepted samples, {} milestones", expected.len(), n));
    }
    // 2. graph invariants
    let acc = Accepted::<K>::from_log(kit, sp, &build_events, &case.problem.start);
    let lvs = sp.get_longest_valid_segment_length();
    let r = case.params.connection_radius;
    let free = case.problem.world.prims.is_empty();
    let states: Vec<K::S> = road.iter().map(|(s, _)| kit.unflat(s)).collect();
    for (i, (_, e)) in road.iter().enumerate() {
        let mut seen = std::collections::HashSet::new();
        for &k in e {
            if k >= n {
                q.viol("link-out-of-range", format!("{i} -> {k}"));
                continue;
            }
            if k == i {
                q.viol("self-link", format!("milestone {i}"));
            }
            if !seen.insert(k) {
                q.viol("duplicate-link", format!("{i} -> {k}"));
            }
            if !road[k].1.contains(&i) {
                q.viol("asymmetric-link", format!("{i} -> {k} without {k} -> {i}"));
            }
            if k > i {
                b.count("links_checked", 1);
                // both argument orders: only a distance that is >= r either way refutes `d < r`
                let dik = sp.distance(&states[i], &states[k]).min(sp.distance(&states[k], &states[i]));
                let tol = len_tol(kit, dik.max(r).max(4.0 * crate::oracle::mag(kit.spec(), &[&road[i].0, &road[k].0])));
                if !(dik < r) {
                    if dik == r {
                        b.count("links_at_exactly_the_radius", 1);
                    }
                    q.viol("link-beyond-radius", format!("{i} - {k}: distance {dik} is not below the radius {r}"));
                }
                let (gap, _, l) = acc.max_gap(kit, sp, &states[i], &states[k]);
                b.max("worst_link_gap_over_lvs", if lvs > 0.0 { gap / lvs } else { 0.0 });
                if !(gap <= lvs + tol + 1e-9 * (1.0 + l)) {
                    q.viol("link-not-motion-checked", format!("{i} - {k} (length {l}): gap {gap} > lvs {lvs}"));
                }
            }
        }
    }
    for i in 0..n {
        for k in (i + 1)..n {
            let dik = sp.distance(&states[i], &states[k]).max(sp.distance(&states[k], &states[i]));
            if dik == r {
                b.count("pairs_at_exactly_the_radius", 1);
            }
            if dik < r && !road[i].1.contains(&k) {
                if free {
                    q.viol("missing-link-in-free-world", format!("{i} - {k}: distance {dik} < radius {r}"));
                } else if !acc.rejected_on(kit, sp, &states[i], &states[k]) {
                    q.viol("missing-link-without-rejection", format!("{i} - {k}: distance {dik} < radius {r} and no query on the motion was rejected"));
                }
            }
        }
    }
    if n >= 2 {
        b.count("roadmaps_with_2plus_milestones", 1);
    }
    // 3. repeated construction is a no-op (an empty roadmap may legitimately be re-sampled)
    if n > 0 {
        let u0 = d.log.borrow().n_uniform;
        let r2 = d.construct_roadmap(true);
        let u1 = d.log.borrow().n_uniform;
        b.count("repeated_constructions", 1);
        if r2 != Res::Done || u1 != u0 || d.snapshot() != Snap::Roadmap(road.clone()) {
            q.viol("repeated-construction-changed-roadmap", format!("second construct_roadmap: {} samples drawn, result {}", u1 - u0, r2.short()));
        }
    }
    // 4. query for P1
    let mark = d.log.borrow().recs.len();
    let res1 = d.solve_ns(3_600_000_000_000, true);
    let ev1: Vec<Rec> = d.log.borrow().recs[mark..].to_vec();
    judge_query(&q, b, &road, &eval, &case.problem.start, &case.problem.goal, &res1, &ev1, "P1");
    if d.snapshot() != Snap::Roadmap(road.clone()) {
        q.viol("query-changed-roadmap", "snapshot differs after solve".into());
    }
    // 4b. a query that runs out of time in the middle of the graph search (every clock read
    //     costs one tick, the budget is a few ticks), then the same query again with all the
    //     time it needs: the answer must be the first one
    {
        {
            let mut l = d.log.borrow_mut();
            l.tick_sample = 1_000;
            l.tick_valid = 1_000;
        }
        oxmpl::verif::set_read_cost(1_000);
        let t = [0u64, 1, 2, 3, 5, 12][(case.n_samples as usize + n) % 6];
        let cut = d.solve_ns(t * 1_000, true);
        oxmpl::verif::set_read_cost(0);
        {
            let mut l = d.log.borrow_mut();
            l.tick_sample = MS;
            l.tick_valid = 0;
        }
        if cut == Res::Err(ErrKind::Timeout) {
            b.count("interrupted_queries", 1);
        }
        if matches!(cut, Res::Budget | Res::Panic { .. }) {
            return;
        }
        if d.snapshot() != Snap::Roadmap(road.clone()) {
            q.viol("query-changed-roadmap", "snapshot differs after an interrupted solve".into());
        }
        let again = d.solve_ns(3_600_000_000_000, true);
        if again != res1 && !matches!(again, Res::Budget | Res::Panic { .. }) {
            q.viol("query-after-interrupted-query-differs", format!("first {}; after a query with a budget of {t} ticks ({}): {}", res1.short(), cut.short(), again.short()));
        }
    }
    // 5. replace the problem: roadmap reused, answer is for P2
    let mut p2 = case.problem.clone();
    p2.start = case.start2.clone();
    p2.goal = case.goal2.clone();
    let Ok(inst2) = d.install(&p2, SampleMode::PlannerRng) else { return };
    d.set_problem_definition(inst2);
    if d.snapshot() != Snap::Roadmap(road.clone()) {
        q.viol("problem-replacement-changed-roadmap", "snapshot differs after set_problem_definition".into());
    }
    let mark = d.log.borrow().recs.len();
    let res2 = d.solve_ns(3_600_000_000_000, true);
    let ev2: Vec<Rec> = d.log.borrow().recs[mark..].to_vec();
    judge_query(&q, b, &road, &eval, &p2.start, &p2.goal, &res2, &ev2, "P2");
    // and back to P1: same answer as before (the query is deterministic)
    let Ok(inst3) = d.install(&case.problem, SampleMode::PlannerRng) else { return };
    let inst3_keep = inst3.clone();
    d.set_problem_definition(inst3);
    let res3 = d.solve_ns(3_600_000_000_000, true);
    if res3 != res1 && !matches!(res3, Res::Budget | Res::Panic { .. }) {
        q.viol("same-query-different-answer", format!("{} then {}", res1.short(), res3.short()));
    }
    // 5b. another query towards the same goal: a problem definition that shares the goal and
    //     space objects (same `Arc`s) of P1 and differs in its start state only
    {
        let mut p3 = case.problem.clone();
        p3.start = case.start2.clone();
        p3.extra_starts.clear();
        let Ok(inst5) = d.install_sharing(&inst3_keep, &p3, None) else { return };
        d.set_problem_definition(inst5);
        if d.snapshot() != Snap::Roadmap(road.clone()) {
            q.viol("problem-replacement-changed-roadmap", "snapshot differs after set_problem_definition (shared goal object)".into());
        }
        let mark = d.log.borrow().recs.len();
        let res5 = d.solve_ns(3_600_000_000_000, true);
        let ev5: Vec<Rec> = d.log.borrow().recs[mark..].to_vec();
        judge_query(&q, b, &road, &eval, &p3.start, &p3.goal, &res5, &ev5, "P3-same-goal-object");
        b.count("queries_with_shared_goal_object", 1);
    }
    if b.samples.is_empty() && n >= 3 {
        b.sample(json!({"space":case.problem.spec.describe(),"samples_drawn":drawn,"milestones":n,"links":road.iter().map(|(_,e)| e.len()).sum::<usize>()/2,"radius":r,"P1":res1.short(),"P2":res2.short()}));
    }
    // 6. second life: a new setup (other problem) must start from an empty roadmap, and whatever
    //    the planner remembered about the first problem must be gone
    let Ok(inst4) = d.install(&p2, match &case.script { Some(s) => SampleMode::Scripted(s.clone()), None => SampleMode::PlannerRng }) else { return };
    if d.setup(inst4) != Res::Done {
        return;
    }
    if d.snapshot().size() != 0 {
        q.viol("setup-did-not-clear-roadmap", format!("{} milestones right after a new setup", d.snapshot().size()));
    }
    let res_unsampled = d.solve_ns(3_600_000_000_000, true);
    if res_unsampled != Res::Err(ErrKind::UnsampledStateSpace) && !matches!(res_unsampled, Res::Budget | Res::Panic { .. }) {
        q.viol("query-on-fresh-roadmap-not-reported", format!("solve right after the second setup returned {}", res_unsampled.short()));
    }
    if d.construct_roadmap(true) != Res::Done {
        return;
    }
    let Snap::Roadmap(road2) = d.snapshot() else { return };
    b.count("second_life_roadmaps", 1);
    let mark = d.log.borrow().recs.len();
    let res4 = d.solve_ns(3_600_000_000_000, true);
    let ev4: Vec<Rec> = d.log.borrow().recs[mark..].to_vec();
    judge_query(&q, b, &road2, &eval, &p2.start, &p2.goal, &res4, &ev4, "P2-after-re-setup");
}

pub fn run(tier: Tier, seed: u64) -> i32 {
    let ctx = Ctx::new("C18", tier, seed, "exploration");
    let n_random = tier.pick(6_000, 250_000);
    let n_worlds_exh = tier.pick(6, 64);
    let shards = 64;
    par_shards(shards, crate::util::n_threads(), |sh| {
        let mut b = Batch::default();
        let mut i = sh;
        while i < n_random {
            let mut r = Sm::derive(seed, &[18, i as u64]);
            let case = make_case(&mut r, i, None);
            with_kit!(case.problem.spec, K, kit => run_case::<K>(&ctx, &mut b, &kit, &case));
            i += shards;
        }
        let mut w = sh;
        while w < n_worlds_exh {
            let max_depth = if tier == Tier::Thorough && w % 4 == 0 { 5usize } else { 4 };
            for depth in 1..=max_depth {
                for code in 0..6usize.pow(depth as u32) {
                    let mut r = Sm::derive(seed, &[1800, w as u64]);
                    let case = make_case(&mut r, w, Some((code, depth)));
                    with_kit!(case.problem.spec, K, kit => run_case::<K>(&ctx, &mut b, &kit, &case));
                    b.count("exhaustive_script_cases", 1);
                }
            }
            w += shards;
        }
        ctx.merge(b);
    });
    for k in ["pairs_at_exactly_the_radius", "roadmaps_with_2plus_milestones", "links_checked", "query_paths", "query_nosolution", "hop_minimality_checks", "unreachable_confirmed_by_reference", "queries[P2]", "queries[P2-after-re-setup]", "repeated_constructions", "interrupted_queries"] {
        ctx.require(k);
    }
    ctx.finish(
        "cases = PRM life cycles (setup, construct_roadmap with an exact sample budget under the virtual clock, repeated construction, query, problem replacement, query, back to the first problem) with planner-RNG samples, random scripted samples and all scripts up to depth 4 over a 6-letter alphabet; radii from isolated nodes to complete graphs; the roadmap snapshot is compared with the accepted samples of the log, checked for graph invariants / radius / motion-check coverage / completeness of links, and every query with a reference multi-source BFS; distinct+non-trivial = distinct roadmap snapshots and distinct returned paths with >= 3 states",
        &[
            "a start link counts as available when the milestone is within the radius and no query on the connecting motion was rejected in that solve call",
            "start links are bracketed between certain (no rejected query on the motion) and possible (within the radius); in obstacle-free worlds the two coincide and the iff / minimum are exact",
            "PRM's validity checker stays the one given to setup (replaced problems differ in start and goal only)",
        ],
        json!({"random_cases": n_random, "exhaustive_worlds": n_worlds_exh}),
    )
}

pub fn replay(v: &Value, file: &str) -> i32 {
    let case = PrmCase::from_json(v);
    let mut ctx = Ctx::new("C18", Tier::Quick, 0, "exploration");
    ctx.replay_of = Some(file.to_string());
    let mut b = Batch::default();
    with_kit!(case.problem.spec, K, kit => run_case::<K>(&ctx, &mut b, &kit, &case));
    ctx.merge(b);
    ctx.finish("replay of one recorded PRM case", &[], json!({"replay": true}))
}
