//! C09 Distance is a metric on each state space.
use super::lattice::{equivalent, space_settings, state_lattice};
use crate::refm::{dist_tol, ref_distance};
use crate::spec::{Kit, Spec, Wrap, CK};
use crate::util::{fjs, hash_f64s, par_shards, Batch, Ctx, Sm, Tier, FNV0};
use crate::with_kit;
use oxmpl::base::space::{AnyStateSpace, StateSpace};
use serde_json::json;
use std::f64::consts::PI;

fn angular_only(spec: &Spec) -> bool {
    matches!(spec.wrap, Wrap::So2 | Wrap::So3)
}

fn scale_of(spec: &Spec, a: &[f64], b: &[f64]) -> f64 {
    // magnitude that governs rounding: coordinate differences for R, raw angle difference for SO2
    let mut s = 0.0f64;
    let mut o = 0;
    for (ci, c) in spec.comps.iter().enumerate() {
        let w = c.kind.width();
        let cw = spec.eff_weight(ci);
        match c.kind {
            CK::R { .. } => {
                for i in 0..w {
                    s = s.max(cw * 4.0 * (a[o + i] - b[o + i]).abs());
                    // subtraction of nearly equal huge numbers is exact, but the inputs bound it
                }
            }
            CK::So2 { .. } => s = s.max(cw * (a[o] - b[o]).abs()),
            CK::So3 { .. } => s = s.max(cw * PI),
        }
        o += w;
    }
    s
}

fn check_spec<K: Kit>(ctx: &Ctx, kit: &K, seed: u64, n_lattice: usize, n_random: usize) {
    let spec = kit.spec().clone();
    let sp = match kit.build() {
        Ok(s) => s,
        Err(e) => {
            ctx.inconclusive(format!("cannot build {}: {e}", spec.describe()));
            return;
        }
    };
    let mut r = Sm::derive(seed, &[9, hash_f64s(FNV0, &[spec.width() as f64]), spec.comps.len() as u64]);
    let lat = state_lattice(&mut r, &spec, n_lattice, true);
    let states: Vec<K::S> = lat.iter().map(|f| kit.unflat(f)).collect();
    let n = states.len();
    let mut b = Batch::default();
    let name = spec.wrap.name();
    let diam_bound = if angular_only(&spec) { Some(PI) } else { None };

    // pairwise matrix
    let mut d = vec![0.0f64; n * n];
    for i in 0..n {
        for j in 0..n {
            d[i * n + j] = sp.distance(&states[i], &states[j]);
        }
    }
    let report = |sig: &str, detail: String, a: &[f64], bb: &[f64], c: Option<&[f64]>| {
        ctx.violate(
            &format!("{sig}:{name}"),
            detail,
            json!({"kind":"metric","spec":spec.to_json(),"a":fjs(a),"b":fjs(bb),"c":c.map(fjs)}),
        );
    };
    // Beyond the range in which squares are representable (coordinates around 1e200) a distance
    // may honestly overflow to +inf, or stay finite in an overflow-safe implementation; either
    // way it is a number, not negative, the same in both argument orders, and zero on the diagonal.
    {
        let offs = spec.offsets();
        for (ci, c) in spec.comps.iter().enumerate() {
            if let crate::spec::CK::R { n: dim, .. } = &c.kind {
                let base = lat[r.below(lat.len())].clone();
                let mk = |vals: &[f64]| {
                    let mut v = base.clone();
                    for k in 0..*dim {
                        v[offs[ci] + k] = vals[k % vals.len()];
                    }
                    v
                };
                let big = [mk(&[1e200, 1e200]), mk(&[3e200, 2e200]), mk(&[-1e200, 2.5e200]), mk(&[-3e200, -1e200]), mk(&[1e200, -0.0])];
                for x in &big {
                    for y in &big {
                        b.evaluations += 1;
                        b.count("overflow_band_pairs", 1);
                        let (sx, sy) = (kit.unflat(x), kit.unflat(y));
                        let (dxy, dyx) = (sp.distance(&sx, &sy), sp.distance(&sy, &sx));
                        if dxy.is_nan() && c.weight == 0.0 && !spec.is_plain() {
                            // (K-4) the component distance overflows to +inf and the compound
                            // multiplies it by its zero weight: 0 * inf = NaN
                            report("overflow-times-zero-weight", format!("d(a,b)={dxy}: a zero-weight R^n component whose own distance overflows (coordinates around 1e200)"), x, y, None);
                        } else if !(dxy >= 0.0) {
                            report("negative-or-nan", format!("d(a,b)={dxy} for coordinates around 1e200"), x, y, None);
                        } else if !(dxy == dyx || (dxy - dyx).abs() <= 1e-12 * dxy.abs()) {
                            report("asymmetric", format!("d(a,b)={dxy} d(b,a)={dyx} for coordinates around 1e200"), x, y, None);
                        }
                        // (the other components keep their own d(a,a) tolerance, e.g. SO3's 4e-8)
                        if x == y && !(dxy <= dist_tol(&spec, 1.0)) && c.weight != 0.0 {
                            report("self-distance", format!("d(a,a)={dxy} for coordinates around 1e200"), x, y, None);
                        }
                    }
                }
                break;
            }
        }
    }
    for i in 0..n {
        for j in 0..n {
            let dij = d[i * n + j];
            let sc = scale_of(&spec, &lat[i], &lat[j]);
            let tol = dist_tol(&spec, sc);
            b.evaluations += 1;
            if !(dij >= 0.0) {
                report("negative-or-nan", format!("d(a,b)={dij}"), &lat[i], &lat[j], None);
                continue;
            }
            if i == j && !(dij <= tol) {
                report("self-distance", format!("d(a,a)={dij}"), &lat[i], &lat[j], None);
            }
            let dji = d[j * n + i];
            if !((dij - dji).abs() <= tol) {
                report("asymmetric", format!("d(a,b)={dij} d(b,a)={dji}"), &lat[i], &lat[j], None);
            }
            if let Some(dm) = diam_bound {
                if !(dij <= dm + tol) {
                    report("exceeds-diameter", format!("d(a,b)={dij} > pi"), &lat[i], &lat[j], None);
                }
            }
            let rf = ref_distance(&spec, &lat[i], &lat[j]);
            let err = (dij - rf).abs();
            b.max(&format!("ref_error[{name}]"), err);
            if !(err <= tol) {
                report("reference-mismatch", format!("d(a,b)={dij} reference={rf} tol={tol:e}"), &lat[i], &lat[j], None);
            }
            if dij > 0.0 {
                b.distinct.insert(hash_f64s(hash_f64s(hash_f64s(FNV0, &[spec.width() as f64]), &lat[i]), &lat[j]));
                b.count("pairs_with_positive_distance", 1);
            }
            // erased interface must give the identical number
            let dd = sp.distance_dyn(&states[i], &states[j]);
            if dd.to_bits() != dij.to_bits() {
                report("dyn-mismatch", format!("distance_dyn={dd} distance={dij}"), &lat[i], &lat[j], None);
            }
        }
    }
    // equivalent representations
    for i in 0..n {
        if let Some(e) = equivalent(&mut r, &spec, &lat[i]) {
            let es = kit.unflat(&e);
            for j in 0..n {
                let d1 = d[i * n + j];
                let d2 = sp.distance(&es, &states[j]);
                let sc = scale_of(&spec, &e, &lat[j]).max(scale_of(&spec, &lat[i], &lat[j]));
                // shifting by 2 pi k rounds the angle: allow for that too
                let wmax = spec.max_weight().max(1.0);
                let tol = dist_tol(&spec, sc) + 8.0 * f64::EPSILON * wmax * e.iter().fold(0.0f64, |m, x| m.max(x.abs()));
                b.evaluations += 1;
                b.count("equivalent_representation_checks", 1);
                if !((d1 - d2).abs() <= tol) {
                    report("representation-dependent", format!("d(a,b)={d1} but d(a',b)={d2} for equivalent a'={:?}", e), &lat[i], &lat[j], None);
                }
            }
        }
    }
    // all lattice triples: triangle inequality
    for i in 0..n {
        for j in 0..n {
            let dij = d[i * n + j];
            for k in 0..n {
                let djk = d[j * n + k];
                let dik = d[i * n + k];
                let sc = scale_of(&spec, &lat[i], &lat[j]).max(scale_of(&spec, &lat[j], &lat[k]));
                let tol = 3.0 * dist_tol(&spec, sc);
                let slack = dik - dij - djk;
                if slack > 0.0 {
                    b.max(&format!("triangle_excess[{name}]"), slack);
                }
                if !(slack <= tol) {
                    report("triangle", format!("d(a,c)={dik} > d(a,b)+d(b,c)={}", dij + djk), &lat[i], &lat[k], Some(&lat[j]));
                }
            }
        }
        b.evaluations += (n * n) as u64;
    }
    b.count("lattice_triples", (n * n * n) as u64);
    // random triples
    for t in 0..n_random {
        let fa = crate::world::rand_state(&mut r, &bounded_view(&spec));
        let fb = crate::world::rand_state(&mut r, &bounded_view(&spec));
        let fc = if t % 3 == 0 { lat[r.below(n)].clone() } else { crate::world::rand_state(&mut r, &bounded_view(&spec)) };
        let (a, bb, c) = (kit.unflat(&fa), kit.unflat(&fb), kit.unflat(&fc));
        let (dab, dbc, dac, dba) = (sp.distance(&a, &bb), sp.distance(&bb, &c), sp.distance(&a, &c), sp.distance(&bb, &a));
        let sc = scale_of(&spec, &fa, &fb).max(scale_of(&spec, &fb, &fc));
        let tol = dist_tol(&spec, sc);
        b.evaluations += 1;
        if !(dab >= 0.0 && dbc >= 0.0 && dac >= 0.0) {
            report("negative-or-nan", format!("{dab} {dbc} {dac}"), &fa, &fb, Some(&fc));
        }
        if !((dab - dba).abs() <= tol) {
            report("asymmetric", format!("d(a,b)={dab} d(b,a)={dba}"), &fa, &fb, None);
        }
        if !(dac <= dab + dbc + 3.0 * tol) {
            report("triangle", format!("d(a,c)={dac} > {}", dab + dbc), &fa, &fc, Some(&fb));
        }
        let rf = ref_distance(&spec, &fa, &fb);
        b.max(&format!("ref_error[{name}]"), (dab - rf).abs());
        if !((dab - rf).abs() <= tol) {
            report("reference-mismatch", format!("d(a,b)={dab} reference={rf}"), &fa, &fb, None);
        }
        if let Some(dm) = diam_bound {
            if !(dab <= dm + tol) {
                report("exceeds-diameter", format!("d(a,b)={dab}"), &fa, &fb, None);
            }
        }
        if dab > 0.0 {
            b.distinct.insert(hash_f64s(hash_f64s(hash_f64s(FNV0, &[spec.width() as f64]), &fa), &fb));
        }
        if t < 1 {
            b.sample(json!({"spec":spec.describe(),"a":fjs(&fa),"b":fjs(&fb),"c":fjs(&fc),"d(a,b)":dab,"d(b,c)":dbc,"d(a,c)":dac,"reference d(a,b)":rf}));
        }
    }
    b.count("random_triples", n_random as u64);
    b.count(&format!("settings[{name}]"), 1);
    ctx.merge(b);
}

/// rand_state needs bounds for R components: give unbounded ones a box.
pub fn bounded_view(spec: &Spec) -> Spec {
    let mut s = spec.clone();
    for c in s.comps.iter_mut() {
        if let CK::R { n, bounds } = &mut c.kind {
            if bounds.is_none() {
                *bounds = Some(vec![(-10.0, 10.0); *n]);
            }
        }
    }
    s
}

pub fn run(tier: Tier, seed: u64) -> i32 {
    let ctx = Ctx::new("C09", tier, seed, "exploration");
    let mut r = Sm::derive(seed, &[9]);
    let settings = space_settings(&mut r, tier == Tier::Thorough);
    let n_lat = tier.pick(56, 150);
    let n_rand = tier.pick(20_000, 1_500_000);
    par_shards(settings.len(), crate::util::n_threads(), |i| {
        let spec = &settings[i];
        with_kit!(spec, K, kit => check_spec::<K>(&ctx, &kit, seed.wrapping_add(i as u64 * 7919), n_lat, n_rand));
    });
    for w in crate::spec::ALL_WRAPS {
        ctx.require(&format!("settings[{}]", w.name()));
    }
    ctx.require("equivalent_representation_checks");
    ctx.finish(
        "cases = ordered state pairs and triples (all lattice triples exhaustively + seeded random triples) per space setting; a case is distinct+non-trivial when the (space width, a, b) bit pattern is new and d(a,b) > 0",
        &[
            "tolerances: 1e-12 + 8 eps * scale for R^n/SO2, 1e-7 per SO3 component (acos noise near dot=1), triangle slack 3x",
            "R^n magnitudes stay below 1e100 (squares overflow above ~1e154: documented input bound)",
            "reference formulas (atan2-based) are trusted as the definition of the geodesic distance",
        ],
        json!({"lattice_size_per_setting": n_lat, "random_triples_per_setting": n_rand, "exhaustive": false}),
    )
}
