//! C15 / C16 / C17: single-stepped tree planners. The real planner is driven one iteration at
//! a time through its public API (`solve(0)` under the virtual clock = exactly one iteration),
//! a snapshot (hook H4) is taken between iterations and the event log of each step is sliced.
use crate::drv::{Drv, Res, Snap, TNode};
use crate::monitor::{Ev, Rec, SampleMode, WorldEval};
use crate::oracle::{len_tol, snap_trees, tree_structure, Accepted};
use crate::spec::{Kit, ALL_WRAPS};
use crate::util::{fjs, hash_f64s, par_shards, Batch, Ctx, Sm, Tier, FNV0};
use crate::with_kit;
use crate::world::{alphabet, gen_params, gen_problem, gen_spec, GenOpts, Hostility, PKind, PParams, Problem};
use oxmpl::base::space::StateSpace;
use serde_json::{json, Value};

#[derive(Clone, Copy, PartialEq, Eq, Debug)]
pub enum StepProp {
    C15,
    C16,
    C17,
}
impl StepProp {
    pub fn id(&self) -> &'static str {
        match self {
            StepProp::C15 => "C15",
            StepProp::C16 => "C16",
            StepProp::C17 => "C17",
        }
    }
}

#[derive(Clone, Debug)]
pub struct StepCase {
    pub problem: Problem,
    pub params: PParams,
    pub letters: Vec<Vec<f64>>,
    /// indices into `letters`
    pub script: Vec<usize>,
    /// when set, the step is the space's own distance between these two letters (exact ties
    /// between "within the step" and "beyond the step")
    pub step_from: Option<(usize, usize)>,
    /// after this many steps the same problem object is set up again with a validity checker
    /// for this other world (a changed environment); stepping then continues
    pub resetup: Option<(usize, crate::world::World)>,
    /// the planner object first lives on another (64 times larger, coarsest-resolution) space
    /// object of the same type: nothing of that may survive the `setup` the trace starts with
    pub prelife: bool,
}
impl StepCase {
    pub fn to_json(&self) -> Value {
        json!({"kind":"steps","problem":self.problem.to_json(),"params":self.params.to_json(),
               "letters":self.letters.iter().map(|l| fjs(l)).collect::<Vec<_>>(),"script":self.script,"step_from":self.step_from.map(|(a,b)| json!([a,b])),
               "resetup":self.resetup.as_ref().map(|(k,w)| json!({"at":k,"world":w.to_json()})),"prelife":self.prelife})
    }
    pub fn from_json(v: &Value) -> StepCase {
        StepCase {
            problem: Problem::from_json(&v["problem"]),
            params: PParams::from_json(&v["params"]),
            letters: v["letters"].as_array().unwrap().iter().map(crate::util::parse_fs).collect(),
            script: v["script"].as_array().unwrap().iter().map(|x| x.as_u64().unwrap() as usize).collect(),
            step_from: v["step_from"].as_array().map(|a| (a[0].as_u64().unwrap() as usize, a[1].as_u64().unwrap() as usize)),
            resetup: if v["resetup"].is_null() { None } else { Some((v["resetup"]["at"].as_u64().unwrap_or(0) as usize, crate::world::World::from_json(&v["resetup"]["world"]))) },
            prelife: v["prelife"].as_bool().unwrap_or(false),
        }
    }
}

pub struct StepRec {
    pub q: Option<Vec<f64>>,
    pub q_is_goal: bool,
    pub events: Vec<Rec>,
    pub res: Res,
}
pub struct Trace {
    /// the world whose validity checker was installed for this segment of the run
    pub world: crate::world::World,
    /// the event log of this segment (from its setup call on)
    pub recs: Vec<Rec>,
    pub snaps: Vec<Snap>,
    pub steps: Vec<StepRec>,
    /// goal samples handed out during setup (RRT-Connect's goal-tree root candidates)
    pub setup_goal_samples: Vec<Vec<f64>>,
}

pub fn run_trace<K: Kit>(kit: &K, case: &StepCase) -> Result<(Drv<K>, Vec<Trace>), String> {
    crate::watch::set_case(case.to_json());
    oxmpl::verif::arm(0);
    let mut d = Drv::new(kit, &case.params, 0.0).map_err(|r| format!("constructor: {}", r.short()))?;
    d.log.borrow_mut().budget = 400_000;
    if case.prelife {
        super::plan::live_elsewhere(&mut d, kit, &case.problem.spec, case.script.len() as u64, false)?;
        d.log.borrow_mut().tick_sample = crate::drv::MS;
    }
    let inst = d.install(&case.problem, SampleMode::Scripted(vec![case.letters[0].clone()]))?;
    let first = inst.clone();
    let r = d.setup(inst);
    if r != Res::Done {
        return Err(format!("setup: {}", r.short()));
    }
    let mut segments: Vec<Trace> = vec![];
    let mut seg_start = 0usize;
    let mut world = case.problem.world.clone();
    let setup_samples = |d: &Drv<K>, from: usize| -> Vec<Vec<f64>> { d.log.borrow().recs[from..].iter().filter_map(|r| if let Ev::GoalSample(f) = &r.ev { Some(f.clone()) } else { None }).collect() };
    let mut setup_goal_samples = setup_samples(&d, 0);
    let mut snaps = vec![d.snapshot()];
    let mut steps = vec![];
    for (k, &li) in case.script.iter().enumerate() {
        if let Some((at, w2)) = &case.resetup {
            if *at == k {
                // close the current segment, set the same problem object up again with a new checker
                let recs = d.log.borrow().recs[seg_start..].to_vec();
                segments.push(Trace { world: world.clone(), recs, snaps: std::mem::take(&mut snaps), steps: std::mem::take(&mut steps), setup_goal_samples: std::mem::take(&mut setup_goal_samples) });
                let mut p2 = case.problem.clone();
                p2.world = w2.clone();
                seg_start = d.log.borrow().recs.len();
                let inst2 = d.reinstall(&first, &p2)?;
                let r = d.setup(inst2);
                if r != Res::Done {
                    return Err(format!("re-setup: {}", r.short()));
                }
                world = w2.clone();
                setup_goal_samples = setup_samples(&d, seg_start);
                snaps = vec![d.snapshot()];
            }
        }
        d.set_script(vec![case.letters[li].clone()]);
        let mark = d.log.borrow().recs.len();
        let res = d.step();
        let events: Vec<Rec> = d.log.borrow().recs[mark..].to_vec();
        let mut q = None;
        let mut q_is_goal = false;
        for e in &events {
            match &e.ev {
                Ev::Uniform(f) => {
                    q = Some(f.clone());
                }
                Ev::GoalSample(f) => {
                    q = Some(f.clone());
                    q_is_goal = true;
                }
                _ => {}
            }
        }
        let stop = !matches!(res, Res::Err(crate::drv::ErrKind::Timeout));
        steps.push(StepRec { q, q_is_goal, events, res });
        snaps.push(d.snapshot());
        if stop && !(case.resetup.as_ref().map(|(at, _)| *at > k).unwrap_or(false)) {
            break;
        }
    }
    let recs = d.log.borrow().recs[seg_start..].to_vec();
    segments.push(Trace { world, recs, snaps, steps, setup_goal_samples });
    Ok((d, segments))
}

fn bits_eq(a: &[f64], b: &[f64]) -> bool {
    a.len() == b.len() && a.iter().zip(b).all(|(x, y)| x.to_bits() == y.to_bits())
}

struct J<'a, K: Kit> {
    ctx: &'a Ctx,
    kit: &'a K,
    sp: &'a K::SP,
    case: &'a StepCase,
    prop: StepProp,
}
impl<'a, K: Kit> J<'a, K> {
    fn viol(&self, want: StepProp, sig: &str, detail: String, step: usize) {
        if self.prop == want {
            let mut v = self.case.to_json();
            v["property"] = json!(self.prop.id());
            v["failing_step"] = json!(step);
            self.ctx.violate(&format!("{sig}:{}", self.case.params.kind.name()), format!("step {step}: {detail}"), v);
        }
    }
    fn d(&self, a: &[f64], b: &[f64]) -> f64 {
        self.sp.distance(&self.kit.unflat(a), &self.kit.unflat(b))
    }
}

/// One-tree extension rule (C16): returns the set of nearest-node indices from which `x`
/// is a correct one-step extension toward `q`.
fn steer_sources<K: Kit>(j: &J<K>, tree: &[TNode], q: &[f64], x: &[f64], step: f64) -> (Vec<usize>, Vec<usize>) {
    let ds: Vec<f64> = tree.iter().map(|n| j.d(&n.s, q)).collect();
    let dmin = ds.iter().cloned().fold(f64::INFINITY, f64::min);
    let tol = len_tol(j.kit, dmin.max(step).max(4.0 * crate::oracle::mag(j.kit.spec(), &[q, x])));
    let nearest: Vec<usize> = (0..tree.len()).filter(|i| ds[*i] <= dmin + tol).collect();
    let mut ok = vec![];
    for &i in &nearest {
        let dnq = ds[i];
        let n = &tree[i].s;
        let good = if dnq <= step - tol {
            bits_eq(x, q)
        } else if dnq <= step + tol {
            bits_eq(x, q) || ((j.d(n, x) - step).abs() <= tol && (j.d(n, x) + j.d(x, q) - dnq).abs() <= 2.0 * tol)
        } else {
            let dnx = j.d(n, x);
            (dnx - step).abs() <= tol && (dnx + j.d(x, q) - dnq).abs() <= 2.0 * tol
        };
        if good {
            ok.push(i);
        }
    }
    (nearest, ok)
}

/// Judge one RRT-Connect transition under the assumption that the start tree (or the goal tree)
/// was the one grown first. Returns (violations, counters).
fn judge_connect_roles<K: Kit>(
    j: &J<K>,
    d: &Drv<K>,
    start_first: bool,
    a0: &[TNode],
    a1: &[TNode],
    g0: &[TNode],
    g1: &[TNode],
    ga: i64,
    gg: i64,
    q: &[f64],
    step: f64,
    acc_q: usize,
    rej_q: usize,
    res: &Res,
) -> (Vec<(String, String)>, Vec<&'static str>) {
    let mut v: Vec<(String, String)> = vec![];
    let mut c: Vec<&'static str> = vec![];
    c.push(if start_first { "connect_grow_start_first" } else { "connect_grow_goal_first" });
    let (f0, f1, s0, s1, gf, gs) = if start_first { (a0, a1, g0, g1, ga, gg) } else { (g0, g1, a0, a1, gg, ga) };
    if gf == 0 {
        if gs != 0 {
            v.push(("wrong-tree-grown-first".into(), format!("the {} tree was due (sizes {} / {}) but only the other one grew", if start_first { "start" } else { "goal" }, a0.len(), g0.len())));
        } else if rej_q == 0 {
            v.push(("nothing-added-although-all-queries-accepted".into(), format!("{acc_q} accepted queries, sample {:?}", q)));
        }
        c.push("transitions_rejected");
        return (v, c);
    }
    c.push("transitions_extended");
    let x = &f1[f0.len()];
    let (_, ok) = steer_sources(j, f0, q, &x.s, step);
    if ok.is_empty() {
        v.push(("new-node-is-not-one-step-from-a-nearest-node".into(), format!("sample {:?}, new node {:?}", q, x.s)));
    } else if !ok.contains(&x.parent.unwrap_or(usize::MAX)) {
        v.push(("parent-is-not-a-nearest-node".into(), format!("parent {:?}, admissible {:?}", x.parent, ok)));
    }
    // direct hit: the start tree grew into the goal => the call must have returned, and the other
    // tree must not have been touched
    let direct = start_first && d.goal().map(|g| g.pure_satisfied(&j.kit.unflat(&x.s))).unwrap_or(false);
    if direct {
        c.push("connect_direct_goal_hits");
        if gs != 0 {
            v.push(("connect-after-direct-hit".into(), "goal tree grew although the start tree had reached the goal".into()));
        }
        if !res.is_path() {
            v.push(("direct-hit-not-returned".into(), format!("result {}", res.short())));
        }
        return (v, c);
    }
    if gs == 1 {
        c.push("connect_extensions");
        let y = &s1[s0.len()];
        let (_, ok2) = steer_sources(j, s0, &x.s, &y.s, step);
        if ok2.is_empty() {
            v.push(("connect-node-is-not-one-step-toward-new-node".into(), format!("target {:?}, connect node {:?}", x.s, y.s)));
        } else if !ok2.contains(&y.parent.unwrap_or(usize::MAX)) {
            v.push(("connect-parent-is-not-a-nearest-node".into(), format!("parent {:?}, admissible {:?}", y.parent, ok2)));
        }
        let reached = bits_eq(&y.s, &x.s);
        if reached {
            c.push("connect_solutions");
            // the planner must report the connection when the target was within one step under an
            // exact comparison taken in both argument orders; at a distance one ulp above the step
            // it may legitimately have interpolated onto the target without noticing
            let dmin = s0.iter().map(|n| j.d(&n.s, &x.s).max(j.d(&x.s, &n.s))).fold(f64::INFINITY, f64::min);
            if !res.is_path() {
                if dmin <= step {
                    v.push(("connection-not-returned".into(), format!("trees met at {:?} (distance {dmin} <= step {step}) but result is {}", x.s, res.short())));
                } else {
                    c.push("connect_met_at_exact_step_boundary_unreported");
                }
            }
        } else if res.is_path() {
            v.push(("path-without-connection".into(), "a path was returned although the trees did not meet".into()));
        }
    } else if rej_q == 0 {
        // the connect attempt was made and rejected: some query must have been rejected
        v.push(("connect-not-attempted-or-dropped".into(), format!("other tree did not grow, yet no query was rejected ({acc_q} accepted)")));
    }
    (v, c)
}

/// C16 over *one* `solve` call of many iterations (the single-stepped traces start a new call
/// for every iteration, so anything a planner carries from one iteration to the next inside a
/// call - an adapted step size, a cached choice - is invisible to them). Without snapshots in
/// between, the rule is checked existentially: the nodes of the final tree, in insertion order,
/// must be explainable by the samples the call drew, in order - node i is the sample itself or
/// the one-step point from a nearest node among its predecessors, for some sample drawn after
/// the one that explains node i-1 (RRT-Connect: or the connect step towards the node the other
/// tree received for the same sample). Sound whatever an iteration looks like inside.
fn batch_case<K: Kit>(prop: StepProp, ctx: &Ctx, b: &mut Batch, kit: &K, case: &StepCase) {
    crate::watch::set_case(case.to_json());
    oxmpl::verif::arm(0);
    let Ok(mut d) = Drv::new(kit, &case.params, 0.0) else { return };
    d.log.borrow_mut().budget = 400_000;
    let seq: Vec<Vec<f64>> = case.script.iter().map(|&li| case.letters[li].clone()).collect();
    let Ok(inst) = d.install(&case.problem, SampleMode::Scripted(seq.clone())) else { return };
    if d.setup(inst) != Res::Done {
        return;
    }
    let Ok(eval) = WorldEval::<K>::new(kit, &case.problem.world) else { return };
    let snap0 = d.snapshot();
    let mark = d.log.borrow().recs.len();
    let res = d.solve_iters(seq.len() as u64);
    if matches!(res, Res::Panic { .. } | Res::Budget) {
        return;
    }
    if prop == StepProp::C15 || prop == StepProp::C17 {
        // the structure oracle of the stepped traces, applied to the tree one long call leaves
        let recs = d.log.borrow().recs.clone();
        let setup_goal_samples = recs[..mark].iter().filter_map(|r| if let Ev::GoalSample(f) = &r.ev { Some(f.clone()) } else { None }).collect();
        let tr = Trace { world: case.problem.world.clone(), recs, snaps: vec![snap0, d.snapshot()], steps: vec![], setup_goal_samples };
        b.count("batch_solves", 1);
        b.count("batch_tree_nodes", d.snapshot().size() as u64);
        judge_trace::<K>(prop, ctx, b, kit, case, &d, &tr);
        return;
    }
    let samples: Vec<Vec<f64>> = d.log.borrow().recs[mark..].iter().filter_map(|r| match &r.ev {
        Ev::Uniform(f) | Ev::GoalSample(f) => Some(f.clone()),
        _ => None,
    }).collect();
    let j = J { ctx, kit, sp: &eval.sp, case, prop: StepProp::C16 };
    let step = case.params.max_distance;
    b.evaluations += 1;
    b.count("batch_solves", 1);
    b.count("batch_samples", samples.len() as u64);
    let explained = |prefix: &[TNode], target: &[f64], x: &[f64]| -> bool { !steer_sources(&j, prefix, target, x, step).1.is_empty() };
    let mut fail: Option<String> = None;
    match d.snapshot() {
        Snap::Tree(t) => {
            let mut k = 0usize;
            for i in 1..t.len() {
                match (k..samples.len()).find(|s| explained(&t[..i], &samples[*s], &t[i].s)) {
                    Some(s) => {
                        k = s + 1;
                        b.count("batch_nodes_explained", 1);
                    }
                    None => {
                        fail = Some(format!("node {i} = {:?} of {} is neither a sample nor the one-step point from a nearest earlier node towards any of the samples {}..{} of the call", t[i].s, t.len(), k, samples.len()));
                        break;
                    }
                }
            }
        }
        Snap::Trees(a, g) => {
            // depth-first over (sample index, nodes of the start tree explained, of the goal tree)
            let mut dead: std::collections::HashSet<(usize, usize, usize)> = std::collections::HashSet::new();
            let mut stack = vec![(0usize, 1usize.min(a.len()), 1usize.min(g.len()))];
            let mut best = (0usize, 0usize);
            let mut done = a.len() <= 1 && g.len() <= 1;
            while let Some((s, ia, ig)) = stack.pop() {
                if ia >= a.len() && ig >= g.len() {
                    done = true;
                    break;
                }
                if ia + ig > best.0 + best.1 {
                    best = (ia, ig);
                }
                if s >= samples.len() || !dead.insert((s, ia, ig)) {
                    continue;
                }
                let q = &samples[s];
                stack.push((s + 1, ia, ig));
                if ia < a.len() && explained(&a[..ia], q, &a[ia].s) {
                    stack.push((s + 1, ia + 1, ig));
                    if ig < g.len() && explained(&g[..ig], &a[ia].s, &g[ig].s) {
                        stack.push((s + 1, ia + 1, ig + 1));
                    }
                }
                if ig < g.len() && explained(&g[..ig], q, &g[ig].s) {
                    stack.push((s + 1, ia, ig + 1));
                    if ia < a.len() && explained(&a[..ia], &g[ig].s, &a[ia].s) {
                        stack.push((s + 1, ia + 1, ig + 1));
                    }
                }
            }
            if done {
                b.count("batch_nodes_explained", (a.len() + g.len()).saturating_sub(2) as u64);
            } else {
                fail = Some(format!("the trees ({} / {} nodes) cannot be explained by the {} samples of the call: at best {} / {} nodes are extensions towards a sample or connect steps towards the other tree's new node", a.len(), g.len(), samples.len(), best.0, best.1));
            }
        }
        _ => {}
    }
    if let Some(detail) = fail {
        let mut v = case.to_json();
        v["property"] = json!("C16");
        v["batch"] = json!(true);
        ctx.violate(&format!("tree-not-explained-by-the-samples-of-one-call:{}", case.params.kind.name()), detail, v);
    }
}

fn step_queries(events: &[Rec]) -> (usize, usize) {
    let mut acc = 0;
    let mut rej = 0;
    for e in events {
        if let Ev::Valid(_, ok) = &e.ev {
            if *ok {
                acc += 1
            } else {
                rej += 1
            }
        }
    }
    (acc, rej)
}

fn judge_trace<K: Kit>(prop: StepProp, ctx: &Ctx, b: &mut Batch, kit: &K, case: &StepCase, d: &Drv<K>, tr: &Trace) {
    let eval = match WorldEval::<K>::new(kit, &tr.world) {
        Ok(e) => e,
        Err(e) => {
            ctx.inconclusive(e);
            return;
        }
    };
    let sp = &eval.sp;
    let j = J { ctx, kit, sp, case, prop };
    let kind = case.params.kind;
    let step = case.params.max_distance;
    let radius = case.params.search_radius;
    let limit = case.params.step_limit();
    let start_valid = eval.valid(&kit.unflat(&case.problem.start), &case.problem.start);

    // ---------------- C15: structure of every snapshot
    if prop == StepProp::C15 {
        let acc = Accepted::<K>::from_log(kit, sp, &tr.recs, &case.problem.start);
        let lvs = sp.get_longest_valid_segment_length();
        // only the nodes added since the previous snapshot need the (expensive) edge checks,
        // plus every re-parented node
        let mut checked_edges: std::collections::HashSet<(u64, u64)> = std::collections::HashSet::new();
        // right after setup the trees must be fresh: the start alone, and at most one goal root
        match &tr.snaps[0] {
            // (one root per listed start state at most)
            Snap::Tree(t) if t.is_empty() || t.len() > 1 + case.problem.extra_starts.len() => j.viol(StepProp::C15, "tree:not-reset-by-setup", format!("{} nodes right after setup", t.len()), 0),
            Snap::Trees(a, g) if a.is_empty() || a.len() > 1 + case.problem.extra_starts.len() || g.len() > 1 => j.viol(StepProp::C15, "tree:not-reset-by-setup", format!("{} / {} nodes right after setup", a.len(), g.len()), 0),
            _ => {}
        }
        for (si, s) in tr.snaps.iter().enumerate() {
            b.distinct.insert(s.hash());
            b.count("snapshots_checked", 1);
            for (name, tree) in snap_trees(s) {
                if tree.is_empty() {
                    continue;
                }
                let expected_root: Option<&[f64]> = if name == "goal_tree" { None } else { Some(&case.problem.start) };
                for (sig, det) in tree_structure(tree, expected_root, name) {
                    // a further root is admissible when it is one of the listed start states
                    // (its validity is checked below)
                    if sig.ends_with(":second-root") && !case.problem.extra_starts.is_empty() {
                        continue;
                    }
                    j.viol(StepProp::C15, &sig, det, si);
                }
                for (ni, nd) in tree.iter().enumerate() {
                    if ni > 0 && nd.parent.is_none() && name != "goal_tree" {
                        let listed = case.problem.extra_starts.iter().any(|e| bits_eq(e, &nd.s));
                        if !listed && !case.problem.extra_starts.is_empty() {
                            j.viol(StepProp::C15, &format!("{name}:second-root"), format!("node {ni} has no parent and is not a listed start state"), si);
                        } else if listed && !eval.valid(&kit.unflat(&nd.s), &nd.s) {
                            j.viol(StepProp::C15, &format!("{name}:invalid-root"), format!("the listed start state {:?} is rejected by the validity checker but is a root of the tree", nd.s), si);
                        }
                    }
                }
                if name == "goal_tree" {
                    // root must be one of the goal samples handed out, and satisfy the goal
                    let root = &tree[0].s;
                    // ... handed out since the setup of *this* segment began (an implementation
                    // may also choose the root lazily in its first iteration)
                    let known = tr.setup_goal_samples.iter().any(|f| bits_eq(f, root)) || tr.recs.iter().any(|r| matches!(&r.ev, Ev::GoalSample(f) if bits_eq(f, root)));
                    if !known || tree[0].parent.is_some() {
                        j.viol(StepProp::C15, "goal_tree:root-is-not-a-goal-sample", format!("root {:?}", root), si);
                    }
                    if !eval.valid(&kit.unflat(root), root) {
                        j.viol(StepProp::C15, "goal_tree:invalid-root", format!("the root {:?} of the goal-side tree is rejected by the validity checker", root), si);
                    }
                    b.count("goal_tree_roots_checked", 1);
                }
                for (ni, nd) in tree.iter().enumerate() {
                    let Some(p) = nd.parent else { continue };
                    if p >= tree.len() {
                        continue;
                    }
                    let key = (hash_f64s(FNV0, &tree[p].s), hash_f64s(FNV0, &nd.s));
                    if !checked_edges.insert(key) {
                        continue;
                    }
                    b.count("edges_checked", 1);
                    let (a, c) = (kit.unflat(&tree[p].s), kit.unflat(&nd.s));
                    // node validity: the pure function, and (valid-start worlds) an accepted query
                    if !eval.valid(&c, &nd.s) {
                        j.viol(StepProp::C15, &format!("{name}:invalid-node"), format!("node {ni} = {:?} is invalid", nd.s), si);
                    }
                    let l = sp.distance(&a, &c);
                    let tol = len_tol(kit, l.max(limit).max(4.0 * crate::oracle::mag(kit.spec(), &[&tree[p].s, &nd.s])));
                    if !(l <= limit + tol) {
                        j.viol(StepProp::C15, &format!("{name}:edge-too-long"), format!("edge {p}->{ni} has length {l} > {limit}"), si);
                    }
                    let (gap, nq, _) = acc.max_gap(kit, sp, &a, &c);
                    b.max("worst_edge_gap_over_lvs", if lvs > 0.0 { gap / lvs } else { 0.0 });
                    if !(gap <= lvs + tol + 1e-9 * (1.0 + l)) {
                        j.viol(StepProp::C15, &format!("{name}:edge-not-motion-checked"), format!("edge {p}->{ni} (length {l}): gap {gap} > lvs {lvs} between accepted queries ({nq} on the edge)"), si);
                    }
                    if l == 0.0 {
                        b.count("zero_length_edges", 1);
                    }
                }
                if !start_valid {
                    b.count("invalid_start_worlds", 1);
                }
            }
        }
    }

    // ---------------- per-transition oracles
    for (si, st) in tr.steps.iter().enumerate() {
        let (before, after) = (&tr.snaps[si], &tr.snaps[si + 1]);
        b.evaluations += 1;
        let Some(q) = &st.q else {
            // solve returned before sampling (invalid start, empty goal tree): not a transition
            b.count("steps_without_sample", 1);
            if before != after {
                j.viol(StepProp::C16, "tree-changed-without-sample", "snapshot changed in a call that drew no sample".into(), si);
            }
            continue;
        };
        b.count("transitions", 1);
        b.distinct.insert(after.hash());
        let (acc_q, rej_q) = step_queries(&st.events);
        let n_samples = st.events.iter().filter(|e| matches!(e.ev, Ev::Uniform(_) | Ev::GoalSample(_))).count();
        if n_samples != 1 {
            j.viol(StepProp::C16, "not-exactly-one-sample-per-iteration", format!("{n_samples} sampler calls in one iteration"), si);
        }
        match (before, after) {
            (Snap::Tree(t0), Snap::Tree(t1)) => {
                let grew = t1.len() as i64 - t0.len() as i64;
                if !(0..=1).contains(&grew) {
                    j.viol(StepProp::C16, "more-than-one-node-added", format!("tree grew by {grew}"), si);
                    continue;
                }
                if grew == 0 {
                    b.count("transitions_rejected", 1);
                    if rej_q == 0 {
                        j.viol(StepProp::C16, "nothing-added-although-all-queries-accepted", format!("{acc_q} accepted, 0 rejected queries, sample {:?}", q), si);
                    }
                    if t0 != t1 {
                        j.viol(StepProp::C16, "tree-mutated-without-growth", "nodes changed although no node was added".into(), si);
                    }
                    continue;
                }
                b.count("transitions_extended", 1);
                let x = &t1[t0.len()];
                let (nearest, ok) = steer_sources(&j, t0, q, &x.s, step);
                if nearest.len() > 1 {
                    b.count("transitions_with_tied_nearest", 1);
                }
                if ok.is_empty() {
                    j.viol(StepProp::C16, "new-node-is-not-one-step-from-a-nearest-node", format!("sample {:?}, new node {:?}, nearest nodes {:?}", q, x.s, nearest), si);
                }
                if bits_eq(&x.s, q) {
                    b.count("extension_reached_sample", 1);
                } else {
                    b.count("extension_truncated_to_step", 1);
                }
                let parent = x.parent.unwrap_or(usize::MAX);
                if kind == PKind::Rrt {
                    if !ok.contains(&parent) && !ok.is_empty() {
                        j.viol(StepProp::C16, "parent-is-not-a-nearest-node", format!("parent {parent}, admissible nearest nodes {:?}", ok), si);
                    }
                    if t0[..] != t1[..t0.len()] {
                        j.viol(StepProp::C16, "existing-nodes-mutated", "RRT changed existing nodes".into(), si);
                    }
                }
                if let Res::Path(p) = &st.res {
                    if !bits_eq(p.last().unwrap(), &x.s) {
                        j.viol(StepProp::C16, "path-does-not-end-at-new-node", format!("{:?}", p.last()), si);
                    }
                }
                if kind == PKind::Star {
                    judge_star(&j, b, t0, t1, &ok, &st.events, radius, si);
                }
            }
            (Snap::Trees(a0, g0), Snap::Trees(a1, g1)) => {
                let ga = a1.len() as i64 - a0.len() as i64;
                let gg = g1.len() as i64 - g0.len() as i64;
                if !(0..=1).contains(&ga) || !(0..=1).contains(&gg) {
                    j.viol(StepProp::C16, "more-than-one-node-added", format!("start tree grew by {ga}, goal tree by {gg}"), si);
                    continue;
                }
                if a0[..] != a1[..a0.len()] || g0[..] != g1[..g0.len()] {
                    j.viol(StepProp::C16, "existing-nodes-mutated", "RRT-Connect changed existing nodes".into(), si);
                }
                // which tree is due: the smaller one; on equal sizes the property does not say, so
                // either assignment that explains the transition is accepted
                let roles: Vec<bool> = if a0.len() < g0.len() { vec![true] } else if a0.len() > g0.len() { vec![false] } else { vec![true, false] };
                let mut best: Option<(Vec<(String, String)>, Vec<&'static str>)> = None;
                for start_first in roles {
                    let (v, c) = judge_connect_roles(&j, d, start_first, a0, a1, g0, g1, ga, gg, q, step, acc_q, rej_q, &st.res);
                    let better = match &best {
                        None => true,
                        Some((bv, _)) => v.len() < bv.len(),
                    };
                    if better {
                        best = Some((v, c));
                    }
                    if best.as_ref().map(|x| x.0.is_empty()).unwrap_or(false) {
                        break;
                    }
                }
                if let Some((v, c)) = best {
                    for k in c {
                        b.count(k, 1);
                    }
                    for (sig, det) in v {
                        j.viol(StepProp::C16, &sig, det, si);
                    }
                }
            }
            _ => {}
        }
    }

    // ---------------- C17 snapshot invariant: recorded cost bounds the true branch length
    if prop == StepProp::C17 && kind == PKind::Star {
        if let Some(Snap::Tree(t)) = tr.snaps.last() {
            let n = t.len();
            for i in 0..n {
                let mut len = 0.0;
                let mut cur = i;
                let mut hops = 0;
                while let Some(p) = t[cur].parent {
                    if p >= n || hops > n {
                        break;
                    }
                    len += j.d(&t[p].s, &t[cur].s);
                    cur = p;
                    hops += 1;
                }
                let tol = len_tol(kit, len.max(1.0).max(4.0 * crate::oracle::mag(kit.spec(), &[&t[i].s]))) * (hops as f64 + 1.0);
                b.count("branch_lengths_checked", 1);
                if !(len <= t[i].cost + tol) {
                    j.viol(StepProp::C17, "recorded-cost-below-true-branch-length", format!("node {i}: branch length {len} > recorded cost {}", t[i].cost), tr.steps.len());
                }
            }
        }
    }
    if b.samples.is_empty() && tr.steps.len() >= 3 {
        b.sample(json!({"planner":kind.name(),"space":case.problem.spec.describe(),"alphabet_size":case.letters.len(),"script":case.script,"final_snapshot_size":tr.snaps.last().map(|s| s.size()),"last_result":tr.steps.last().map(|s| s.res.short())}));
    }
}

/// RRT* bookkeeping for one extending transition (C17).
fn judge_star<K: Kit>(j: &J<K>, b: &mut Batch, t0: &[TNode], t1: &[TNode], steerable: &[usize], events: &[Rec], radius: f64, si: usize) {
    let n = t0.len();
    let x = &t1[n];
    let Some(p) = x.parent else {
        j.viol(StepProp::C17, "new-node-has-no-parent", "".into(), si);
        return;
    };
    if p >= n {
        j.viol(StepProp::C17, "new-node-parent-out-of-range", format!("{p}"), si);
        return;
    }
    let rejected: Vec<K::S> = events.iter().filter_map(|e| if let Ev::Valid(f, false) = &e.ev { Some(j.kit.unflat(f)) } else { None }).collect();
    let rejected_on = |a: &[f64], c: &[f64]| -> bool {
        let (sa, sc) = (j.kit.unflat(a), j.kit.unflat(c));
        let l = j.sp.distance(&sa, &sc);
        let on_tol = 1e-9 * (1.0 + l) + if j.kit.spec().has_so3() { 1e-7 } else { 0.0 };
        rejected.iter().any(|s| {
            let d1 = j.sp.distance(&sa, s);
            d1 <= l + on_tol && d1 + j.sp.distance(s, &sc) <= l + on_tol
        })
    };
    let dpx = j.d(&t0[p].s, &x.s);
    let scale = x.cost.abs().max(dpx).max(1.0).max(4.0 * crate::oracle::mag(j.kit.spec(), &[&x.s, &t0[p].s]));
    let tol = len_tol(j.kit, scale) * 2.0;
    b.count("star_extensions", 1);
    // motions created in this step must have been validated in this step
    let step_acc = Accepted::<K>::from_log(j.kit, j.sp, events, &x.s);
    let lvs = j.sp.get_longest_valid_segment_length();
    let validated = |a: &[f64], c: &[f64]| -> (bool, f64) {
        let (sa, sc) = (j.kit.unflat(a), j.kit.unflat(c));
        let (gap, _, l) = step_acc.max_gap(j.kit, j.sp, &sa, &sc);
        (gap <= lvs + len_tol(j.kit, l.max(4.0 * crate::oracle::mag(j.kit.spec(), &[a, c]))) + 1e-9 * (1.0 + l), gap)
    };
    {
        let (ok, gap) = validated(&t0[p].s, &x.s);
        if !ok {
            j.viol(StepProp::C17, "parent-link-not-validated-in-this-iteration", format!("edge parent {p} -> new node: gap {gap} > lvs {lvs} among this iteration's accepted queries"), si);
        }
    }
    // 1. cost bookkeeping
    if !((x.cost - (t0[p].cost + dpx)).abs() <= tol) {
        j.viol(StepProp::C17, "cost-is-not-parent-cost-plus-edge", format!("new cost {} but parent cost {} + edge {}", x.cost, t0[p].cost, dpx), si);
    }
    // 2. parent is a candidate
    let dist_x: Vec<f64> = t0.iter().map(|nd| j.d(&nd.s, &x.s)).collect();
    // obligations use the strict test, permissions the loose one (d(a,b) vs d(b,a) rounding)
    let in_radius = |i: usize| dist_x[i] < radius - tol;
    let in_radius_loose = |i: usize| dist_x[i] < radius + tol;
    if !steerable.contains(&p) && !in_radius_loose(p) {
        j.viol(StepProp::C17, "parent-neither-nearest-nor-within-radius", format!("parent {p} at distance {} (radius {radius}), steerable nearest {:?}", dist_x[p], steerable), si);
    }
    if !steerable.contains(&p) {
        b.count("star_parent_not_nearest", 1);
    }
    // 3. no cheaper neighbour was skipped without the checker having said no
    for i in 0..n {
        if i == p || !in_radius(i) {
            continue;
        }
        let via = t0[i].cost + dist_x[i];
        if via < x.cost - tol && !rejected_on(&t0[i].s, &x.s) {
            j.viol(StepProp::C17, "cheaper-neighbour-skipped", format!("neighbour {i} offers cost {via} < chosen {} and no query on its segment was rejected", x.cost), si);
            break;
        }
    }
    // 4. never worse than every steerable nearest node
    if !steerable.is_empty() {
        let worst_nearest = steerable.iter().map(|i| t0[*i].cost + dist_x[*i]).fold(f64::NEG_INFINITY, f64::max);
        if !(x.cost <= worst_nearest + tol) {
            j.viol(StepProp::C17, "chosen-cost-above-nearest-node-cost", format!("chosen {} > cost via nearest {}", x.cost, worst_nearest), si);
        }
    }
    // 5. rewiring
    let mut rewired = 0;
    for i in 0..n {
        let changed = t0[i] != t1[i];
        let d_xi = dist_x[i];
        let new_cost = x.cost + d_xi;
        if changed {
            rewired += 1;
            let ok = in_radius_loose(i) && i != p && t1[i].parent == Some(n) && (t1[i].cost - new_cost).abs() <= tol && t1[i].cost < t0[i].cost + tol && bits_eq(&t0[i].s, &t1[i].s);
            if ok {
                let (v, gap) = validated(&x.s, &t0[i].s);
                if !v {
                    j.viol(StepProp::C17, "rewire-through-unvalidated-motion", format!("node {i} re-parented to the new node although this iteration's accepted queries leave a gap of {gap} > lvs {lvs} on that motion"), si);
                }
            }
            if !ok {
                j.viol(StepProp::C17, "illegal-rewire", format!("node {i} changed from (parent {:?}, cost {}) to (parent {:?}, cost {}); distance to new node {d_xi}, radius {radius}, cost via new node {new_cost}", t0[i].parent, t0[i].cost, t1[i].parent, t1[i].cost), si);
            }
        } else if in_radius(i) && i != p && new_cost < t0[i].cost - tol && !rejected_on(&x.s, &t0[i].s) {
            j.viol(StepProp::C17, "missed-rewire", format!("neighbour {i} (cost {}) becomes cheaper through the new node ({new_cost}) by a motion no query rejected, but was not re-parented", t0[i].cost), si);
        }
    }
    if rewired > 0 {
        b.count("star_rewire_events", rewired);
    }
}

// ------------------------------------------------------------------------------------------
// workload
// ------------------------------------------------------------------------------------------
pub fn make_case(r: &mut Sm, idx: usize, prop: StepProp, depth_exhaustive: Option<(usize, usize)>) -> StepCase {
    let wrap = ALL_WRAPS[idx % 6];
    let kind = match prop {
        StepProp::C17 => PKind::Star,
        _ => [PKind::Rrt, PKind::Connect, PKind::Star][(idx / 6) % 3],
    };
    let opts = GenOpts { nonconvex: true, fracs: true, odd_weights: true, max_dim: 3 };
    let spec = gen_spec(r, wrap, &opts);
    let host = match prop {
        StepProp::C17 => *r.pick(&[Hostility::Free, Hostility::Free, Hostility::Plain]),
        _ => *r.pick(&[Hostility::Plain, Hostility::Plain, Hostility::Free, Hostility::GoalOverlap]),
    };
    let mut problem = gen_problem(r, &spec, host);
    // long stepping runs need a goal that is not hit at once
    problem.goal.radius *= 0.5;
    let mut params = gen_params(r, &spec, kind, false);
    // (0 and negative: rewiring switched off - no node is "within" such a radius)
    params.search_radius = params.max_distance * *r.pick(&[0.5, 1.0, 2.0, 5.0, 0.0, 1.0, 2.0, -1.0]);
    params.goal_bias = *r.pick(&[0.0, 0.0, 0.05, 0.3]);
    let letters = alphabet(r, &problem, 3);
    let script: Vec<usize> = match depth_exhaustive {
        Some((code, depth)) => {
            // `code` enumerates sequences over the first 6 letters
            let base = letters.len().min(6);
            let mut c = code;
            (0..depth).map(|_| { let l = c % base; c /= base; l }).collect()
        }
        None => {
            let len = 8 + r.below(60);
            (0..len).map(|_| r.below(letters.len())).collect()
        }
    };
    let step_from = if letters.len() >= 3 && r.bool(0.25) {
        let a = r.below(letters.len());
        let b = r.below(letters.len());
        if letters[a] != letters[b] { Some((a, b)) } else { None }
    } else {
        None
    };
    // a changed environment half-way: same problem object, new checker
    let resetup = if depth_exhaustive.is_none() && script.len() >= 6 && r.bool(0.3) {
        let at = 2 + r.below(script.len() - 3);
        let host2 = *r.pick(&[Hostility::Plain, Hostility::GoalOverlap, Hostility::GoalInvalid, Hostility::Free]);
        let mut p2 = gen_problem(r, &problem.spec, host2);
        // keep start and goal of the installed problem; only the world changes
        if host2 == Hostility::GoalInvalid {
            p2.world.prims.push(crate::world::Prim::Shell { centre: problem.goal.centre.clone(), r_in: 0.0, r_out: problem.goal.radius * 1.5 + 1e-5 });
        }
        Some((at, p2.world))
    } else {
        None
    };
    let prelife = r.bool(0.1);
    StepCase { problem, params, letters, script, step_from, resetup, prelife }
}

/// A tree that winds once around a finite wall (over the top, down the far side, back underneath)
/// and then receives a sample right next to the wall: its nearest node is the expensive end of
/// the spiral, a cheaper neighbour sits just behind the wall (its motion is blocked) and the
/// cheapest one is a young child of the start. Random scripts practically never build this;
/// it exercises choose-parent / rewire when cheaper candidates are blocked and rewiring would
/// shortcut through the wall. Variants: mirrored, axes swapped, scaled, shifted, jittered.
pub fn spiral_case(r: &mut Sm, variant: usize, kind: PKind) -> StepCase {
    use crate::spec::{Spec, Wrap, CK};
    use crate::world::{GoalMode, GoalSpec, Prim, World};
    let (mx, my, swap) = (variant & 1 == 1, variant & 2 == 2, variant & 4 == 4);
    let s = [1.0, 1.0, 1e-3, 250.0][(variant / 8) % 4];
    let jitter = if variant / 32 == 0 { 0.0 } else { 0.04 };
    let (ox, oy) = if variant / 8 % 2 == 1 { (r.range(-3.0, 3.0), r.range(-3.0, 3.0)) } else { (0.0, 0.0) };
    // base layout: box [0,10] x [-5,5], wall x in [4.8,5.2], y in [-1,3]
    let tf = |x: f64, y: f64| -> Vec<f64> {
        let x = if mx { 10.0 - x } else { x };
        let y = if my { 2.0 - y } else { y };
        let (x, y) = ((x + ox) * s, (y + oy) * s);
        if swap { vec![y, x] } else { vec![x, y] }
    };
    let base = [(4.0, 4.0), (6.0, 4.0), (6.0, 2.0), (5.6, 0.6), (5.8, -1.5), (4.4, -1.6), (4.4, -0.4), (3.2, 0.6), (4.5, 0.5), (7.5, 0.6)];
    let mut letters: Vec<Vec<f64>> = base.iter().map(|(x, y)| tf(x + jitter * r.range(-1.0, 1.0), y + jitter * r.range(-1.0, 1.0))).collect();
    // a few more samples afterwards keep the planner busy around the wall
    for _ in 0..6 {
        letters.push(tf(r.range(3.0, 7.0), r.range(-2.5, 4.5)));
    }
    let corner = |x: f64, y: f64| tf(x, y);
    let (a, c) = (corner(0.0, -5.0), corner(10.0, 5.0));
    let (w0, w1) = (corner(4.8, -1.0), corner(5.2, 3.0));
    let (xi, yi) = if swap { (1usize, 0usize) } else { (0, 1) };
    let bounds = {
        let mut bnd = vec![(0.0, 0.0); 2];
        bnd[xi] = (a[xi].min(c[xi]), a[xi].max(c[xi]));
        bnd[yi] = (a[yi].min(c[yi]), a[yi].max(c[yi]));
        bnd
    };
    let spec = Spec::plain(Wrap::R, CK::R { n: 2, bounds: Some(bounds.clone()) }, Some(0.01));
    // the wall: a slab in x with two gaps in y (everything below and above the wall is free)
    let (ylo, yhi) = (w0[yi].min(w1[yi]), w0[yi].max(w1[yi]));
    let wall = Prim::Slab { idx: xi, lo: w0[xi].min(w1[xi]), hi: w0[xi].max(w1[xi]), gaps: vec![(yi, -1e300, ylo - 1e-9 * s), (yi, yhi + 1e-9 * s, 1e300)] };
    let goal = GoalSpec { centre: letters[9].clone(), radius: 0.3 * s, mode: GoalMode::Centre, fail_at: None, window: None };
    let problem = Problem { spec, world: World { prims: vec![wall] }, start: tf(2.0, 0.0), extra_starts: vec![], goal, infeasible: None, tags: vec!["spiral-around-a-wall".into()] };
    let params = PParams { kind, max_distance: 5.0 * s, goal_bias: 0.0, search_radius: 1.5 * s, connection_radius: 1.5 * s, seed: Some(3 + variant as u64) };
    let script = (0..letters.len()).collect();
    StepCase { problem, params, letters, script, step_from: None, resetup: None, prelife: variant % 8 == 5 }
}

pub fn run_case(prop: StepProp, ctx: &Ctx, b: &mut Batch, case: &StepCase) {
    let mut owned = case.clone();
    // C15, now and then: the problem lists further start states (valid ones, and ones deep or
    // marginally inside an obstacle). A planner may ignore them or root further trees at the
    // valid ones; an invalid one must never become a node.
    if prop == StepProp::C15 && case.problem.extra_starts.is_empty() && (case.script.len() + case.letters.len()) % 8 == 0 {
        let mut r = Sm::derive(case.script.len() as u64, &[case.letters.len() as u64, 1515]);
        super::paths::add_extra_starts_to(&mut r, &mut owned.problem, b);
    }
    with_kit!(case.problem.spec, K, kit => {
        if let (Some((ia, ib)), Ok(sp)) = (case.step_from, kit.build()) {
            let d = sp.distance(&kit.unflat(&case.letters[ia]), &kit.unflat(&case.letters[ib]));
            if d > 0.0 && d.is_finite() {
                let k = owned.params.search_radius / owned.params.max_distance;
                owned.params.max_distance = d;
                owned.params.search_radius = d * k;
                b.count("cases_with_exact_tie_step", 1);
            }
        }
    });
    let case = &owned;
    with_kit!(case.problem.spec, K, kit => {
        match run_trace::<K>(&kit, case) {
            Ok((d, segs)) => {
                if segs.len() > 1 {
                    b.count("cases_with_re_setup", 1);
                }
                for tr in &segs {
                    judge_trace::<K>(prop, ctx, b, &kit, case, &d, tr);
                }
            }
            Err(_) => b.count("case_not_executable", 1),
        }
    });
}

pub fn run(prop: StepProp, tier: Tier, seed: u64) -> i32 {
    let ctx = Ctx::new(prop.id(), tier, seed, "exploration");
    let n_random = tier.pick(3_000, 200_000);
    let n_worlds_exh = tier.pick(6, 96);
    let shards = 64;
    par_shards(shards, crate::util::n_threads(), |sh| {
        let mut b = Batch::default();
        let mut i = sh;
        while i < n_random {
            let mut r = Sm::derive(seed, &[prop as u64 + 15, i as u64]);
            let case = make_case(&mut r, i, prop, None);
            run_case(prop, &ctx, &mut b, &case);
            b.count("random_script_cases", 1);
            if case.resetup.is_none() && case.step_from.is_none() {
                with_kit!(case.problem.spec, K, kit => batch_case::<K>(prop, &ctx, &mut b, &kit, &case));
            }
            i += shards;
        }
        // hand-shaped worlds: a tree that spirals around a wall (see `spiral_case`)
        let mut v = sh;
        while v < 64 {
            let mut r = Sm::derive(seed, &[prop as u64 + 170, v as u64]);
            let kind = match prop {
                StepProp::C17 => PKind::Star,
                _ => [PKind::Star, PKind::Rrt, PKind::Star, PKind::Connect][(v / 8) % 4],
            };
            let case = spiral_case(&mut r, v, kind);
            run_case(prop, &ctx, &mut b, &case);
            with_kit!(case.problem.spec, K, kit => batch_case::<K>(prop, &ctx, &mut b, &kit, &case));
            b.count("spiral_cases", 1);
            v += shards;
        }
        // exhaustive depth-<=4 scripts over a 6-letter alphabet on a few worlds
        let mut w = sh;
        while w < n_worlds_exh {
            // thorough: depth 5 (7 776 scripts) on every fourth world
            let max_depth = if tier == Tier::Thorough && w % 4 == 0 { 5usize } else { 4 };
            for depth in 1..=max_depth {
                let total = 6usize.pow(depth as u32);
                for code in 0..total {
                    // the same world for all codes of this (w): derive from w only
                    let mut r = Sm::derive(seed, &[prop as u64 + 150, w as u64]);
                    let case = make_case(&mut r, w, prop, Some((code, depth)));
                    run_case(prop, &ctx, &mut b, &case);
                    b.count("exhaustive_script_cases", 1);
                }
            }
            w += shards;
        }
        ctx.merge(b);
    });
    ctx.require("transitions_extended");
    ctx.require("transitions_rejected");
    let rule: &str = match prop {
        StepProp::C15 => {
            ctx.require("edges_checked");
            ctx.require("zero_length_edges");
            ctx.require("batch_tree_nodes");
            "cases = single-stepped iterations of RRT / RRT-Connect / RRT* driven by scripted samples over alphabets with duplicates, seam / antipodal states and obstacle-boundary points (random scripts of 8-68 steps, plus all scripts up to depth 4 over a 6-letter alphabet on several worlds); after every step the snapshot is checked for structure (parents in range, single root = start / goal sample, acyclic by bounded walk), node validity, edge length and motion-check coverage of every new edge; the same on the trees that single solve calls of 8-68 iterations leave behind; distinct+non-trivial = distinct snapshot hashes"
        }
        StepProp::C16 => {
            ctx.require("connect_extensions");
            ctx.require("connect_solutions");
            ctx.require("extension_truncated_to_step");
            ctx.require("extension_reached_sample");
            ctx.require("batch_nodes_explained");
            "cases = transitions (snapshot before, logged sample, snapshot after) of single-stepped planners as for C15; each transition is checked against the nearest-node / one-step rule (existential over tied nearest nodes), at-most-one-node-per-tree, rejection only when a query was rejected, RRT-Connect tree balance and connect step; plus whole solve calls of 8-68 iterations whose final trees must be explainable, node by node in insertion order, by the samples the call drew (existential; covers state carried between the iterations of one call); distinct+non-trivial = distinct snapshot hashes"
        }
        StepProp::C17 => {
            ctx.require("star_rewire_events");
            ctx.require("star_parent_not_nearest");
            "cases = RRT* transitions (snapshot with costs before / after, sample, query log of the step): cost bookkeeping, parent in candidate set, no cheaper neighbour skipped without a rejected query, rewire exactly the neighbours that become cheaper by a non-rejected motion, all other nodes untouched, recorded cost >= true branch length; radii 0.5/1/2/5 x step; distinct+non-trivial = distinct snapshot hashes"
        }
    };
    if prop != StepProp::C15 {
        // distinct snapshots are only hashed in C15's branch; hash the final snapshots here
    }
    let extra = if prop == StepProp::C16 { bias_workload(&ctx, tier, seed) } else if prop == StepProp::C17 { rrt_vs_star(&ctx, tier, seed) } else { json!({}) };
    ctx.finish(rule, &["tolerances as in DESIGN.md section 3 (rounding, +5e-6 per unit weight of SO3)", "ties between nearest nodes are quantified existentially", "snapshots come from the read-only hook H4; the virtual clock makes solve(0) exactly one iteration"], extra)
}

/// C16: goal-bias frequencies over long seeded runs (Hoeffding at alpha = 1e-9).
fn bias_workload(ctx: &Ctx, tier: Tier, seed: u64) -> Value {
    let runs = tier.pick(24, 96);
    let iters_per = tier.pick(30_000u64, 100_000);
    par_shards(runs, crate::util::n_threads(), |i| {
        let mut r = Sm::derive(seed, &[1616, i as u64]);
        let kind = [PKind::Rrt, PKind::Connect, PKind::Star][i % 3];
        // (0.004 / 0.996: a bias that is positive but below one percent, and its mirror image)
        let p = [0.0, 1.0, 0.05, 0.3, 0.5, 0.9, 0.004, 0.996][(i / 3) % 8];
        let wrap = ALL_WRAPS[(i / 2 + i / 18) % 6];
        let spec = gen_spec(&mut r, wrap, &GenOpts { nonconvex: false, fracs: false, odd_weights: false, max_dim: 3 });
        // an unreachable goal keeps the planner iterating: goal region entirely invalid, or
        // (RRT-Connect needs a valid goal-tree root) sealed off
        let host = if kind == PKind::Connect { Hostility::SealedGoal } else { Hostility::GoalInvalid };
        let mut problem = gen_problem(&mut r, &spec, host);
        if problem.infeasible.is_none() {
            return;
        }
        problem.goal.mode = crate::world::GoalMode::Centre;
        let mut params = gen_params(&mut r, &spec, kind, false);
        // every other run constructs the planner with another bias and changes the public field
        // after setup: the configured probability is the one in force when `solve` runs
        let late = i % 2 == 1;
        params.goal_bias = if late { if p == 0.5 { 0.1 } else { 0.5 } } else { p };
        // tiny steps keep the tree (and the cost per iteration) small is not possible; bound
        // the tree instead with a small iteration budget for RRT*
        let iters = if kind == PKind::Star { iters_per / 6 } else { iters_per / 2 };
        with_kit!(spec, K, kit => {
            oxmpl::verif::arm(0);
            let Ok(mut d) = Drv::new(&kit, &params, 0.0) else { return };
            d.log.borrow_mut().keep_events = false;
            d.log.borrow_mut().budget = 50_000_000;
            let Ok(inst) = d.install(&problem, SampleMode::PlannerRng) else { return };
            if d.setup(inst) != Res::Done { return; }
            if late {
                d.set_goal_bias(p);
            }
            let (g0, u0) = { let l = d.log.borrow(); (l.n_goal_sample, l.n_uniform) };
            let res = d.solve_iters(iters);
            let (g1, u1) = { let l = d.log.borrow(); (l.n_goal_sample, l.n_uniform) };
            let (g, u) = (g1 - g0, u1 - u0);
            let n = g + u;
            if n == 0 { return; }
            let frac = g as f64 / n as f64;
            let eps = ((2.0f64 / 1e-9).ln() / (2.0 * n as f64)).sqrt();
            let mut b = Batch::default();
            b.evaluations += n;
            b.count("bias_runs", 1);
            if late { b.count("bias_runs_with_bias_changed_after_setup", 1); }
            b.count(&format!("bias_runs[p={p}]"), 1);
            b.count("bias_iterations", n);
            b.max("worst_bias_deviation_over_bound", (frac - p).abs() / eps);
            // Hoeffding is blind to biases far below its epsilon: for those the multiplicative
            // Chernoff bound P(X <= (1 - delta) n p) <= exp(-delta^2 n p / 2) on the rarer outcome
            let chernoff = |count: u64, q: f64| -> bool {
                let mean = n as f64 * q;
                let delta = 1.0 - count as f64 / mean;
                delta > 0.0 && (-(delta * delta) * mean / 2.0).exp() < 1e-9
            };
            let bad = if p == 0.0 { g > 0 } else if p == 1.0 { u > 0 } else { (frac - p).abs() > eps || chernoff(g, p) || chernoff(u, 1.0 - p) };
            if bad {
                ctx.violate(&format!("goal-bias-frequency:{}", kind.name()), format!("configured bias {p}: {g} goal samples in {n} iterations (fraction {frac:.4}, Hoeffding bound {eps:.4}); result {}", res.short()),
                    json!({"kind":"bias","problem":problem.to_json(),"params":params.to_json(),"iters":iters}));
            }
            ctx.merge(b);
        });
    });
    // The two extreme settings are absolute statements ("never" / "always"), which frequencies
    // over 1e4 iterations cannot tell from a one-in-millions leak (e.g. an inclusive comparison
    // against a coarse random number). Long runs in a world where nothing can ever be added to
    // the tree (only the start state itself is valid, so every iteration costs the same few
    // hundred nanoseconds): bias 0 must never draw a goal sample, bias 1 never a uniform one.
    let long_runs = tier.pick(16usize, 64);
    let long_iters = std::env::var("VERIF_C16_LONG_ITERS").ok().and_then(|s| s.parse().ok()).unwrap_or(tier.pick(20_000_000u64, 60_000_000));
    par_shards(long_runs, crate::util::n_threads(), |i| {
        let kind = [PKind::Star, PKind::Rrt][i % 2];
        let p = if i % 8 == 7 { 1.0 } else { 0.0 };
        let spec = crate::spec::Spec { wrap: crate::spec::Wrap::R, comps: vec![crate::spec::Comp { kind: crate::spec::CK::R { n: 1, bounds: Some(vec![(0.0, 10.0)]) }, weight: 1.0, frac: None }] };
        let problem = Problem {
            spec: spec.clone(),
            world: crate::world::World { prims: vec![crate::world::Prim::Shell { centre: vec![0.5], r_in: 1e-300, r_out: 1e9 }] },
            start: vec![0.5],
            extra_starts: vec![],
            goal: crate::world::GoalSpec { centre: vec![9.0], radius: 0.5, mode: crate::world::GoalMode::Centre, fail_at: None, window: None },
            infeasible: Some("only the start state is valid".into()),
            tags: vec!["bias-long-run".into()],
        };
        let late = i % 4 >= 2;
        let params = PParams { kind, max_distance: 0.7, goal_bias: if late { 0.5 } else { p }, search_radius: 1.0, connection_radius: 1.0, seed: Some(seed.wrapping_mul(1000).wrapping_add(7000 + i as u64)) };
        with_kit!(spec, K, kit => {
            oxmpl::verif::arm(0);
            let Ok(mut d) = Drv::new(&kit, &params, 0.0) else { return };
            d.log.borrow_mut().keep_events = false;
            d.log.borrow_mut().budget = u64::MAX / 4;
            let Ok(inst) = d.install(&problem, SampleMode::PlannerRng) else { return };
            if d.setup(inst) != Res::Done { return; }
            if late {
                d.set_goal_bias(p);
            }
            let (g0, u0) = { let l = d.log.borrow(); (l.n_goal_sample, l.n_uniform) };
            let res = d.solve_iters(long_iters);
            let (g1, u1) = { let l = d.log.borrow(); (l.n_goal_sample, l.n_uniform) };
            let (g, u) = (g1 - g0, u1 - u0);
            let mut b = Batch::default();
            b.evaluations += g + u;
            b.count("bias_long_runs", 1);
            b.count(&format!("bias_long_run_iterations[p={p}]"), g + u);
            if (p == 0.0 && g > 0) || (p == 1.0 && u > 0) {
                ctx.violate(&format!("goal-bias-extreme:{}", kind.name()), format!("configured bias {p}: {g} goal samples and {u} uniform samples in {} iterations; result {}", g + u, res.short()),
                    json!({"kind":"bias","problem":problem.to_json(),"params":params.to_json(),"iters":long_iters}));
            }
            ctx.merge(b);
        });
    });
    ctx.require("bias_runs[p=0]");
    ctx.require("bias_runs[p=1]");
    ctx.require("bias_runs[p=0.3]");
    ctx.require("bias_long_run_iterations[p=0]");
    ctx.require("bias_long_run_iterations[p=1]");
    json!({"bias_runs": runs, "bias_long_runs": long_runs, "bias_long_run_iterations_each": long_iters})
}

/// C17 differential: same seed and problem, RRT vs RRT*: same last state, RRT* not longer.
fn rrt_vs_star(ctx: &Ctx, tier: Tier, seed: u64) -> Value {
    let n = tier.pick(1_500, 100_000);
    let shards = 64;
    par_shards(shards, crate::util::n_threads(), |sh| {
        let mut b = Batch::default();
        let mut i = sh;
        while i < n {
            let mut r = Sm::derive(seed, &[1717, i as u64]);
            let wrap = ALL_WRAPS[i % 6];
            let spec = gen_spec(&mut r, wrap, &GenOpts { nonconvex: false, fracs: true, odd_weights: true, max_dim: 3 });
            let host = *r.pick(&[Hostility::Plain, Hostility::Free, Hostility::GoalOverlap]);
            let mut problem = gen_problem(&mut r, &spec, host);
            // half of the pairs with a goal sampler that consumes the planner's generator
            if r.bool(0.5) {
                problem.goal.mode = crate::world::GoalMode::Rng;
            }
            let mut params = gen_params(&mut r, &spec, PKind::Rrt, false);
            // (0 and negative: rewiring switched off - no node is "within" such a radius)
    params.search_radius = params.max_distance * *r.pick(&[0.5, 1.0, 2.0, 5.0, 0.0, 1.0, 2.0, -1.0]);
            let iters = 20 + r.below(400) as u64;
            with_kit!(spec, K, kit => {
                let sc1 = super::plan::Scenario { problem: problem.clone(), params: params.clone(), iters, prm_samples: 0, script: None, query_budget: 2_000_000 };
                let mut p2 = params.clone();
                p2.kind = PKind::Star;
                let sc2 = super::plan::Scenario { problem: problem.clone(), params: p2, iters, prm_samples: 0, script: None, query_budget: 2_000_000 };
                // a fifth of the pairs: both planner objects are first asked to solve before setup
                // (a refused call must not change what the same seed produces afterwards)
                let refused = r.bool(0.2);
                // another fifth: both planner objects have solved a problem on another space
                // object before (nothing of that success may bound or bias the new search)
                let elsewhere = !refused && r.bool(0.25);
                if elsewhere { b.count("rrt_vs_star_pairs_after_a_life_on_another_space", 1); }
                let run = |sc: &super::plan::Scenario| if refused { super::plan::exec_after_refused_solve::<K>(&kit, sc) } else if elsewhere { super::plan::exec_after_life_elsewhere::<K>(&kit, sc) } else { super::plan::exec::<K>(&kit, sc) };
                if let (Ok((_, r1)), Ok((_, r2))) = (run(&sc1), run(&sc2)) {
                    b.evaluations += 1;
                    b.count("rrt_vs_star_pairs", 1);
                    if refused { b.count("rrt_vs_star_pairs_after_a_refused_solve", 1); }
                    let replay = || { let mut v = sc1.to_json(); v["property"] = json!("C17"); v["kind"] = json!("rrt-vs-star"); v };
                    match (&r1, &r2) {
                        (Res::Path(a), Res::Path(c)) => {
                            b.count("rrt_vs_star_both_paths", 1);
                            // "the same state" up to rounding: the two planners may evaluate
                            // distance(a, b) with the arguments in either order, which moves a
                            // steered node by an ulp or two
                            let (ea, ec) = (a.last().unwrap(), c.last().unwrap());
                            if bits_eq(ea, ec) {
                                b.count("rrt_vs_star_end_bit_identical", 1);
                            }
                            if !crate::oracle::same_up_to_rounding(kit.spec(), ea, ec) {
                                ctx.violate("rrt-star-ends-elsewhere", format!("RRT ends at {:?}, RRT* at {:?}", a.last(), c.last()), replay());
                            }
                            if let Ok(sp) = kit.build() {
                                let len = |p: &Vec<Vec<f64>>| (0..p.len() - 1).map(|k| sp.distance(&kit.unflat(&p[k]), &kit.unflat(&p[k + 1]))).sum::<f64>();
                                let (la, lc) = (len(a), len(c));
                                let tol = len_tol(&kit, la.max(1.0).max(4.0 * crate::oracle::mag(kit.spec(), &[&a[0], a.last().unwrap()]))) * a.len() as f64;
                                if lc < la - tol { b.count("rrt_star_strictly_shorter", 1); }
                                if a.len() >= 3 { b.distinct.insert(super::paths::hash_path(c)); }
                                if !(lc <= la + tol) {
                                    ctx.violate("rrt-star-path-longer-than-rrt", format!("RRT* length {lc} > RRT length {la}"), replay());
                                }
                            }
                        }
                        (Res::Budget, _) | (_, Res::Budget) | (Res::Panic{..}, _) | (_, Res::Panic{..}) => {}
                        (x, y) => {
                            if x.short() != y.short() {
                                ctx.violate("rrt-star-outcome-differs-from-rrt", format!("RRT: {}, RRT*: {}", x.short(), y.short()), replay());
                            }
                        }
                    }
                }
            });
            i += shards;
        }
        ctx.merge(b);
    });
    ctx.require("rrt_vs_star_both_paths");
    ctx.require("rrt_star_strictly_shorter");
    json!({"rrt_vs_star_pairs": n})
}

pub fn replay(prop: StepProp, v: &Value, file: &str) -> i32 {
    let case = StepCase::from_json(v);
    let mut ctx = Ctx::new(prop.id(), Tier::Quick, 0, "exploration");
    ctx.replay_of = Some(file.to_string());
    let mut b = Batch::default();
    run_case(prop, &ctx, &mut b, &case);
    ctx.merge(b);
    ctx.finish("replay of one recorded stepping case", &[], json!({"replay": true}))
}
