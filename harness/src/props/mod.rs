use crate::util::Tier;
pub mod c09;
pub mod c10;
pub mod c11;
pub mod c12;
pub mod c13;
pub mod c14;
pub mod lattice;

pub fn run(prop: &str, tier: Tier, seed: u64) -> i32 {
    match prop {
        "C09" => c09::run(tier, seed),
        "C10" => c10::run(tier, seed),
        "C11" => c11::run(tier, seed),
        "C12" => c12::run(tier, seed),
        "C13" => c13::run(tier, seed),
        "C14" => c14::run(tier, seed),
        _ => {
            eprintln!("unknown property {prop}");
            3
        }
    }
}

pub fn replay(file: &str) -> i32 {
    eprintln!("replay of {file}: not implemented yet");
    3
}
