use crate::util::Tier;
pub mod c06;
pub mod c07;
pub mod c08;
pub mod c09;
pub mod hist;
pub mod c10;
pub mod c11;
pub mod c12;
pub mod c13;
pub mod c14;
pub mod c18;
pub mod lattice;
pub mod miri;
pub mod paths;
pub mod plan;
pub mod steps;

pub fn run(prop: &str, tier: Tier, seed: u64) -> i32 {
    match prop {
        "C01" => paths::run(paths::PathProp::C01, tier, seed),
        "C02" => paths::run(paths::PathProp::C02, tier, seed),
        "C03" => paths::run(paths::PathProp::C03, tier, seed),
        "C04" => paths::run(paths::PathProp::C04, tier, seed),
        "C05" => paths::run(paths::PathProp::C05, tier, seed),
        "C15" => steps::run(steps::StepProp::C15, tier, seed),
        "C16" => steps::run(steps::StepProp::C16, tier, seed),
        "C17" => steps::run(steps::StepProp::C17, tier, seed),
        "C18" => c18::run(tier, seed),
        "C06" => c06::run(tier, seed),
        "C07" => c07::run(tier, seed),
        "C08" => c08::run(tier, seed),
        "C09" => c09::run(tier, seed),
        "C10" => c10::run(tier, seed),
        "C11" => c11::run(tier, seed),
        "C12" => c12::run(tier, seed),
        "C13" => c13::run(tier, seed),
        "C14" => c14::run(tier, seed),
        _ => {
            eprintln!("unknown property {prop}");
            3
        }
    }
}

pub fn replay(file: &str) -> i32 {
    let txt = match std::fs::read_to_string(file) {
        Ok(t) => t,
        Err(e) => {
            eprintln!("cannot read {file}: {e}");
            return 3;
        }
    };
    let v: serde_json::Value = match serde_json::from_str(&txt) {
        Ok(v) => v,
        Err(e) => {
            eprintln!("cannot parse {file}: {e}");
            return 3;
        }
    };
    let prop = v["property"].as_str().unwrap_or("");
    let rp = &v["replay"];
    let kind = rp["kind"].as_str().unwrap_or("");
    match (prop, kind) {
        ("C01", "scenario") => paths::replay(paths::PathProp::C01, rp, file),
        ("C02", "scenario") => paths::replay(paths::PathProp::C02, rp, file),
        ("C03", "scenario") => paths::replay(paths::PathProp::C03, rp, file),
        ("C04", "scenario") => paths::replay(paths::PathProp::C04, rp, file),
        ("C05", "scenario") => paths::replay(paths::PathProp::C05, rp, file),
        ("C18", "prm") => c18::replay(rp, file),
        ("C06", "c06") => c06::replay(rp, file),
        ("C07", "history") => c07::replay(rp, file),
        ("C08", _) => c08::replay(rp, file),
        ("C15", "steps") => steps::replay(steps::StepProp::C15, rp, file),
        ("C16", "steps") => steps::replay(steps::StepProp::C16, rp, file),
        ("C17", "steps") => steps::replay(steps::StepProp::C17, rp, file),
        _ => {
            crate::util::say(&format!("replay file {file} (property {prop}, kind {kind}): the recorded inputs are in the file; re-run `./check {prop}` with VERIF_SEED={} to reproduce", v["seed"]));
            0
        }
    }
}
