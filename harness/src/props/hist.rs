//! W3: call histories over {setup(P1), setup(P2), construct_roadmap, set_problem_definition(P2),
//! solve(n)} executed against the real planners, with the bookkeeping the oracles need
//! (which problem / checker is installed at each call).
use crate::drv::{Drv, Res, Snap};
use crate::monitor::SampleMode;
use crate::spec::Kit;
use crate::world::{PKind, PParams, Problem};
use serde_json::{json, Value};

#[derive(Clone, Debug, PartialEq)]
pub enum Op {
    /// setup with problem i (0 or 1)
    Setup(usize),
    /// setup with the problem-definition object of problem i (the same `Arc` as before when it
    /// was installed earlier) and a new validity checker for the world of problem j
    SetupMixed(usize, usize),
    /// PRM only
    SetPd(usize),
    /// PRM only
    Construct,
    /// solve for exactly n iterations (n = 0: one iteration)
    Solve(u64),
    /// the user multiplies the planner's public step / radius fields by this factor
    ScaleParams(f64),
}
impl Op {
    pub fn to_json(&self) -> Value {
        match self {
            Op::Setup(i) => json!({"setup": i}),
            Op::SetupMixed(i, j) => json!({"setup_mixed": [i, j]}),
            Op::SetPd(i) => json!({"set_pd": i}),
            Op::Construct => json!("construct"),
            Op::Solve(n) => json!({"solve": n}),
            Op::ScaleParams(f) => json!({"scale_params": f}),
        }
    }
    pub fn from_json(v: &Value) -> Op {
        if let Some(a) = v.get("setup_mixed") {
            Op::SetupMixed(a[0].as_u64().unwrap() as usize, a[1].as_u64().unwrap() as usize)
        } else if let Some(i) = v.get("setup") {
            Op::Setup(i.as_u64().unwrap() as usize)
        } else if let Some(i) = v.get("set_pd") {
            Op::SetPd(i.as_u64().unwrap() as usize)
        } else if let Some(f) = v.get("scale_params") {
            Op::ScaleParams(f.as_f64().unwrap_or(1.0))
        } else if let Some(n) = v.get("solve") {
            Op::Solve(n.as_u64().unwrap())
        } else {
            Op::Construct
        }
    }
    pub fn short(&self) -> String {
        match self {
            Op::Setup(i) => format!("setup(P{})", i + 1),
            Op::SetupMixed(i, j) => format!("setup(P{} object, checker of world {})", i + 1, j + 1),
            Op::SetPd(i) => format!("set_pd(P{})", i + 1),
            Op::Construct => "construct".into(),
            Op::Solve(n) => format!("solve({n})"),
            Op::ScaleParams(f) => format!("step*={f}"),
        }
    }
}

#[derive(Clone, Debug)]
pub struct History {
    pub problems: Vec<Problem>,
    pub params: PParams,
    pub prm_samples: u64,
    pub ops: Vec<Op>,
    /// uniform sampler fails at this call (counted per installed problem instance)
    pub uniform_fail_at: Option<u64>,
    /// override of the start list per problem (e.g. Some(vec![]) = empty start list)
    pub starts_override: Option<Vec<Vec<f64>>>,
    /// uniform samples come from this list (cyclic) instead of the planner's generator
    pub script: Option<Vec<Vec<f64>>>,
    /// PRM build time passed to `PRM::new` verbatim (seconds) instead of the sample budget
    pub prm_build_override: Option<f64>,
}
impl History {
    pub fn to_json(&self) -> Value {
        json!({"kind":"history","problems":self.problems.iter().map(|p| p.to_json()).collect::<Vec<_>>(),"params":self.params.to_json(),
               "prm_samples":self.prm_samples,"ops":self.ops.iter().map(|o| o.to_json()).collect::<Vec<_>>(),
               "uniform_fail_at":self.uniform_fail_at,
               "starts_override":self.starts_override.as_ref().map(|l| l.iter().map(|s| crate::util::fjs(s)).collect::<Vec<_>>()),
               "script":self.script.as_ref().map(|l| l.iter().map(|s| crate::util::fjs(s)).collect::<Vec<_>>()),
               "prm_build_override":self.prm_build_override.map(crate::util::fj)})
    }
    pub fn from_json(v: &Value) -> History {
        History {
            problems: v["problems"].as_array().unwrap().iter().map(Problem::from_json).collect(),
            params: PParams::from_json(&v["params"]),
            prm_samples: v["prm_samples"].as_u64().unwrap_or(20),
            ops: v["ops"].as_array().unwrap().iter().map(Op::from_json).collect(),
            uniform_fail_at: v["uniform_fail_at"].as_u64(),
            starts_override: v["starts_override"].as_array().map(|a| a.iter().map(crate::util::parse_fs).collect()),
            script: v["script"].as_array().map(|a| a.iter().map(crate::util::parse_fs).collect()),
            prm_build_override: if v["prm_build_override"].is_null() { None } else { Some(crate::util::parse_f(&v["prm_build_override"])) },
        }
    }
    pub fn describe(&self) -> String {
        format!("{}: {}", self.params.kind.name(), self.ops.iter().map(|o| o.short()).collect::<Vec<_>>().join("; "))
    }
}

#[derive(Clone, Debug)]
pub struct CallRec {
    pub op: Op,
    pub res: Res,
    /// problem installed (by setup / set_pd) when the call was made
    pub pd: Option<usize>,
    /// problem whose world the installed validity checker evaluates
    pub checker: Option<usize>,
    /// roadmap / tree size after the call
    pub snap_size: usize,
    pub snap_hash: u64,
    pub roadmap_nonempty_before: bool,
    /// (samples drawn, validity queries) during the call
    pub samples: u64,
    pub queries: u64,
    pub clock_reads: u64,
    /// the largest C05 limit (step / radius) configured at any time since the last setup
    /// (PRM: since the roadmap was last built) - edges created earlier may be that long
    pub step_limit_since_setup: f64,
    /// length of the event log when the call began / when the last setup began
    pub log_mark: usize,
    pub log_mark_of_last_setup: usize,
}

pub fn run_history<K: Kit>(kit: &K, h: &History, keep_events: bool, budget: u64) -> Result<(Drv<K>, Vec<CallRec>), String> {
    run_history_opts(kit, h, keep_events, budget, None)
}

/// `slow`: real-time latency of the validity callback (see `Log::slow_valid`).
pub fn run_history_opts<K: Kit>(kit: &K, h: &History, keep_events: bool, budget: u64, slow: Option<(u64, u64)>) -> Result<(Drv<K>, Vec<CallRec>), String> {
    crate::watch::set_case(h.to_json());
    oxmpl::verif::arm(0);
    let build_secs = h.prm_build_override.unwrap_or((h.prm_samples as f64 - 0.5) * 1e-3);
    let mut d = Drv::new(kit, &h.params, build_secs).map_err(|r| format!("constructor: {}", r.short()))?;
    {
        let mut l = d.log.borrow_mut();
        l.keep_events = keep_events;
        l.budget = budget;
        l.tick_sample = crate::drv::MS;
        l.tick_valid = 0;
        l.slow_valid = slow;
    }
    let mode = || match (&h.script, h.uniform_fail_at) {
        (Some(s), _) if !s.is_empty() => SampleMode::Scripted(s.clone()),
        (_, Some(k)) => SampleMode::FailAt(k),
        _ => SampleMode::PlannerRng,
    };
    let mut recs = vec![];
    let mut limit_since_setup = h.params.step_limit();
    let mut last_setup_mark = 0usize;
    let mut pd: Option<usize> = None;
    let mut checker: Option<usize> = None;
    // problem-definition objects are created once per problem and re-used (same Arc)
    let mut objects: Vec<Option<crate::drv::Installed<K>>> = vec![None; h.problems.len()];
    // a problem whose goal spec equals that of a problem installed earlier shares that
    // problem's goal and space objects (same `Arc`s), as a user's second query would
    let fresh = |d: &Drv<K>, objects: &Vec<Option<crate::drv::Installed<K>>>, i: usize| -> Result<crate::drv::Installed<K>, String> {
        let donor = objects.iter().enumerate().find_map(|(j, o)| o.as_ref().filter(|_| j != i && h.problems[j].goal == h.problems[i].goal && h.problems[j].spec == h.problems[i].spec));
        match donor {
            Some(prev) => d.install_sharing(prev, &h.problems[i], h.starts_override.clone()),
            None => d.install_starts(&h.problems[i], mode(), h.starts_override.clone()),
        }
    };
    for op in &h.ops {
        let before_nonempty = matches!(d.snapshot(), Snap::Roadmap(r) if !r.is_empty());
        let (s0, q0) = {
            let l = d.log.borrow();
            (l.n_uniform + l.n_goal_sample, l.n_valid)
        };
        let (pd_at, ck_at) = (pd, checker);
        let log_mark = d.log.borrow().recs.len();
        if matches!(op, Op::Setup(_) | Op::SetupMixed(..)) {
            last_setup_mark = log_mark;
        }
        let res = match op {
            Op::Setup(i) => {
                let inst = match &objects[*i] {
                    Some(prev) => d.reinstall(prev, &h.problems[*i])?,
                    None => fresh(&d, &objects, *i)?,
                };
                objects[*i] = Some(inst.clone());
                let r = d.setup(inst);
                pd = Some(*i);
                checker = Some(*i);
                r
            }
            Op::SetupMixed(i, j) => {
                let base = match &objects[*i] {
                    Some(prev) => prev.clone(),
                    None => fresh(&d, &objects, *i)?,
                };
                let inst = d.reinstall(&base, &h.problems[*j])?;
                objects[*i] = Some(inst.clone());
                let r = d.setup(inst);
                pd = Some(*i);
                checker = Some(*j);
                r
            }
            Op::SetPd(i) => {
                if h.params.kind != PKind::Prm {
                    continue;
                }
                // "drop-old-definitions": the user does not keep earlier problem definitions
                // alive - every replacement is a freshly allocated object and the previous ones
                // are freed (so a new definition may well live at the address of a dead one)
                let drop_old = h.problems[0].tags.iter().any(|t| t == "drop-old-definitions");
                if drop_old {
                    for o in objects.iter_mut() {
                        *o = None;
                    }
                }
                let inst = match &objects[*i] {
                    Some(prev) => prev.clone(),
                    None => fresh(&d, &objects, *i)?,
                };
                if !drop_old {
                    objects[*i] = Some(inst.clone());
                }
                let r = d.set_problem_definition(inst);
                pd = Some(*i);
                r
            }
            Op::Construct => {
                if h.params.kind != PKind::Prm {
                    continue;
                }
                d.construct_roadmap(true)
            }
            Op::Solve(n) => d.solve_iters(*n),
            Op::ScaleParams(f) => {
                d.scale_params(*f);
                limit_since_setup = limit_since_setup.max(d.params.step_limit());
                Res::Done
            }
        };
        if matches!(op, Op::Setup(_) | Op::SetupMixed(..)) {
            limit_since_setup = d.params.step_limit();
        }
        let (s1, q1) = {
            let l = d.log.borrow();
            (l.n_uniform + l.n_goal_sample, l.n_valid)
        };
        let (pd_rec, ck_rec) = match op {
            Op::Setup(_) | Op::SetupMixed(..) | Op::SetPd(_) => (pd, checker),
            _ => (pd_at, ck_at),
        };
        let snap = d.snapshot();
        let panicked = matches!(res, Res::Panic { .. } | Res::Budget);
        recs.push(CallRec {
            op: op.clone(),
            res,
            pd: pd_rec,
            checker: ck_rec,
            snap_size: snap.size(),
            snap_hash: snap.hash(),
            roadmap_nonempty_before: before_nonempty,
            samples: s1 - s0,
            queries: q1 - q0,
            clock_reads: d.last_call_clock_reads,
            step_limit_since_setup: limit_since_setup,
            log_mark,
            log_mark_of_last_setup: last_setup_mark,
        });
        if panicked {
            // the planner may be in an arbitrary state after unwinding: stop the history
            break;
        }
    }
    Ok((d, recs))
}
