//! W5: lattices of special values per component kind, composite state lattices, equivalent
//! representations.
use crate::spec::{Comp, Spec, Wrap, CK};
use crate::util::{ulp_down, ulp_up, Sm};
use crate::world::{axis_angle, qmul, qnormalize, quat_at, rand_axis};
use std::f64::consts::PI;

pub fn so2_lattice(r: &mut Sm, n_random: usize, noncanonical: bool) -> Vec<f64> {
    let mut v = vec![
        0.0,
        -0.0,
        PI,
        -PI,
        ulp_down(PI),
        ulp_up(-PI),
        PI / 2.0,
        -PI / 2.0,
        PI / 4.0,
        -3.0 * PI / 4.0,
        3.0 * PI / 4.0,
        1e-9,
        -1e-9,
        1e-300,
        1.0,
        -2.0,
        3.1,
        -3.1,
        ulp_up(PI / 2.0),
        3.141592653589,
    ];
    if noncanonical {
        v.extend_from_slice(&[
            ulp_up(PI),
            ulp_down(-PI),
            2.0 * PI,
            -2.0 * PI,
            3.0 * PI,
            -3.0 * PI,
            4.0,
            -4.0,
            7.0,
            100.0,
            -1000.5,
            1e6,
            2.0 * PI * 1e6 + 0.5,
            // more than 2^31 turns away
            1.5e10,
            -2.0 * PI * 3.0e9 - 1.0,
        ]);
    }
    for _ in 0..n_random {
        v.push(r.range(-PI, PI));
    }
    v
}

/// Unit quaternions [x,y,z,w].
pub fn so3_lattice(r: &mut Sm, n_random: usize) -> Vec<[f64; 4]> {
    let h = std::f64::consts::FRAC_1_SQRT_2;
    let mut v: Vec<[f64; 4]> = vec![
        [0.0, 0.0, 0.0, 1.0],
        [0.0, 0.0, 0.0, -1.0],
        [1.0, 0.0, 0.0, 0.0],
        [0.0, 1.0, 0.0, 0.0],
        [0.0, 0.0, 1.0, 0.0],
        [-1.0, 0.0, 0.0, 0.0],
        [h, 0.0, 0.0, h],
        [0.0, h, 0.0, h],
        [0.0, 0.0, -h, h],
        [h, h, 0.0, 0.0],
        [0.5, 0.5, 0.5, 0.5],
        [-0.5, 0.5, -0.5, 0.5],
        [0.5, 0.5, 0.5, -0.5],
    ];
    let id = [0.0, 0.0, 0.0, 1.0];
    // rotations at special angles from the identity and from a random base: near-identical,
    // around the LERP/SLERP switch (quaternion dot 0.9995 <=> rotation angle 0.06325), right
    // angles (dot ~ 0), almost antipodal rotations
    let switch = 2.0 * (0.9995f64).acos();
    let angles = [
        1e-12,
        1e-9,
        1e-7,
        1e-4,
        0.01,
        switch * (1.0 - 1e-6),
        switch,
        switch * (1.0 + 1e-6),
        0.1,
        1.0,
        PI / 2.0,
        PI - 1e-7,
        PI - 1e-12,
        PI,
    ];
    let base = r.quat();
    for a in angles {
        v.push(quat_at(r, &id, a));
        let q = quat_at(r, &base, a);
        v.push(q);
        v.push([-q[0], -q[1], -q[2], -q[3]]);
    }
    v.push(base);
    for _ in 0..n_random {
        v.push(r.quat());
    }
    v
}

pub fn r_scalars(r: &mut Sm, n_random: usize, huge: bool) -> Vec<f64> {
    let mut v = vec![0.0, -0.0, 1.0, -1.0, 0.5, -0.5, 1e-9, -1e-9, 3.5, -7.25, 1e-300, 1e6, -1e6, 123456.789];
    if huge {
        v.extend_from_slice(&[1e100, -1e100, 1e50, 1e-160]);
    }
    for _ in 0..n_random {
        v.push(r.range(-10.0, 10.0));
    }
    v
}

/// Component-level lattice (flat values of one component).
pub fn comp_lattice(r: &mut Sm, kind: &CK, n_random: usize, noncanonical: bool, cap: usize) -> Vec<Vec<f64>> {
    let mut out: Vec<Vec<f64>> = match kind {
        CK::So2 { .. } => so2_lattice(r, n_random, noncanonical).into_iter().map(|x| vec![x]).collect(),
        CK::So3 { .. } => so3_lattice(r, n_random).into_iter().map(|q| q.to_vec()).collect(),
        CK::R { n, .. } => {
            let sc = r_scalars(r, n_random, true);
            let mut out = vec![];
            if *n == 1 {
                for x in &sc {
                    out.push(vec![*x]);
                }
            } else {
                // axis-aligned specials, then random combinations
                out.push(vec![0.0; *n]);
                for i in 0..*n {
                    for x in [1.0, -1.0, 1e-9, 1e6, 1e100] {
                        let mut p = vec![0.0; *n];
                        p[i] = x;
                        out.push(p);
                    }
                }
                for _ in 0..(3 * sc.len()) {
                    out.push((0..*n).map(|_| *r.pick(&sc)).collect());
                }
            }
            out
        }
    };
    if out.len() > cap {
        // keep the specials at the front, thin the rest deterministically
        let keep_front = cap / 2;
        let rest: Vec<Vec<f64>> = out.split_off(keep_front);
        let need = cap - keep_front;
        for i in 0..need {
            out.push(rest[(i * rest.len()) / need].clone());
        }
    }
    out
}

/// Composite lattice for a whole spec: every component special appears at least once.
pub fn state_lattice(r: &mut Sm, spec: &Spec, target: usize, noncanonical: bool) -> Vec<Vec<f64>> {
    let per: Vec<Vec<Vec<f64>>> = spec.comps.iter().map(|c| comp_lattice(r, &c.kind, 6, noncanonical, target)).collect();
    if per.len() == 1 {
        return per.into_iter().next().unwrap();
    }
    let mut out = vec![];
    let longest = per.iter().map(|p| p.len()).max().unwrap_or(0);
    // "all components at their i-th special", then vary one component at a time
    for i in 0..longest.min(target / 2) {
        let mut v = vec![];
        for p in &per {
            v.extend_from_slice(&p[i % p.len()]);
        }
        out.push(v);
    }
    while out.len() < target {
        let mut v = vec![];
        for p in &per {
            let pick: &Vec<f64> = r.pick(&p[..]);
            v.extend_from_slice(pick);
        }
        out.push(v);
    }
    out
}

/// An equivalent representation of the same configuration: angles shifted by 2 pi k,
/// quaternions negated. Returns None when the state has no angular component.
pub fn equivalent(r: &mut Sm, spec: &Spec, v: &[f64]) -> Option<Vec<f64>> {
    let mut out = v.to_vec();
    let mut changed = false;
    let mut o = 0;
    for c in &spec.comps {
        match c.kind {
            CK::So2 { .. } => {
                let k = *r.pick(&[-3.0, -1.0, 1.0, 2.0, 5.0]);
                out[o] = v[o] + 2.0 * PI * k;
                changed = true;
            }
            CK::So3 { .. } => {
                for i in 0..4 {
                    out[o + i] = -v[o + i];
                }
                changed = true;
            }
            _ => {}
        }
        o += c.kind.width();
    }
    if changed {
        Some(out)
    } else {
        None
    }
}

/// Space settings used by the space-level properties: every family, several layouts.
pub fn space_settings(r: &mut Sm, thorough: bool) -> Vec<Spec> {
    let mut v = vec![];
    let unb = |n: usize| CK::R { n, bounds: None };
    // (dimensions beyond 8 / 16 / 32: block-wise or vectorised loops have their own tails)
    for n in [1usize, 2, 3, 6, 7, 8, 9, 16, 17, 33] {
        v.push(Spec::plain(Wrap::R, unb(n), None));
    }
    v.push(Spec::plain(Wrap::So2, CK::So2 { bounds: None }, None));
    v.push(Spec::plain(Wrap::So3, CK::So3 { bounds: None }, None));
    // (the sign of a weight never matters to sqrt(sum (w d)^2))
    for w in [0.0, 1e-3, 1.0, 50.0, -0.5] {
        v.push(Spec {
            wrap: Wrap::Se2,
            comps: vec![
                Comp { kind: unb(2), weight: 1.0, frac: None },
                Comp { kind: CK::So2 { bounds: None }, weight: w, frac: None },
            ],
        });
        v.push(Spec {
            wrap: Wrap::Se3,
            comps: vec![
                Comp { kind: unb(3), weight: 1.0, frac: None },
                Comp { kind: CK::So3 { bounds: None }, weight: w, frac: None },
            ],
        });
    }
    // bounded variants: distance and interpolation must not depend on the bounds, also for states
    // outside them (a start state may lie outside the sampling box)
    let bx = |n: usize| CK::R { n, bounds: Some((0..n).map(|i| (-1.0 - i as f64, 1.0 + 0.5 * i as f64)).collect()) };
    v.push(Spec::plain(Wrap::R, bx(1), None));
    v.push(Spec::plain(Wrap::R, bx(3), None));
    v.push(Spec::plain(Wrap::So2, CK::So2 { bounds: Some((-1.0, 2.5)) }, None));
    v.push(Spec::plain(Wrap::So3, CK::So3 { bounds: Some((r.quat(), 1.0)) }, None));
    v.push(Spec {
        wrap: Wrap::Se2,
        comps: vec![Comp { kind: bx(2), weight: 1.0, frac: None }, Comp { kind: CK::So2 { bounds: Some((-2.0, 2.0)) }, weight: 0.7, frac: None }],
    });
    v.push(Spec {
        wrap: Wrap::Se3,
        comps: vec![Comp { kind: bx(3), weight: 1.0, frac: None }, Comp { kind: CK::So3 { bounds: None }, weight: 0.7, frac: None }],
    });
    v.push(Spec {
        wrap: Wrap::Compound,
        comps: vec![
            Comp { kind: bx(2), weight: 2.0, frac: None },
            Comp { kind: CK::So2 { bounds: Some((-0.5, 0.5)) }, weight: 1.0, frac: None },
            Comp { kind: CK::So3 { bounds: Some((r.quat(), 0.8)) }, weight: 0.3, frac: None },
        ],
    });
    // compound layouts
    let kinds = [unb(1), unb(2), unb(3), CK::So2 { bounds: None }, CK::So3 { bounds: None }, unb(10)];
    let weights = [0.0, 1e-3, 1.0, 50.0, -2.0];
    let n_layouts = if thorough { 60 } else { 14 };
    for i in 0..n_layouts {
        let nc = 1 + (i % 4);
        let comps: Vec<Comp> = (0..nc)
            .map(|_| Comp { kind: r.pick(&kinds).clone(), weight: *r.pick(&weights), frac: None })
            .collect();
        v.push(Spec { wrap: Wrap::Compound, comps });
    }
    v
}

#[allow(dead_code)]
pub fn unused(_a: [f64; 4]) {
    let _ = (axis_angle([1.0, 0.0, 0.0], 0.0), qmul(&[0.0; 4], &[0.0; 4]), qnormalize([1.0; 4]), rand_axis(&mut Sm::new(0)));
}
