//! C01..C05: oracles on returned paths over the W1 (generated worlds) and W2 (scripted
//! samples) workloads.
use super::plan::{cfg_for, exec, make_scenario, Scenario};
use crate::drv::{ErrKind, Res, Snap};
use crate::monitor::{Ev, WorldEval};
use crate::oracle::{path_bounds, path_coverage, path_endpoints, path_steps, path_validity, Accepted};
use crate::spec::Kit;
use crate::util::{fjs, hash_f64s, par_shards, Batch, Ctx, Sm, Tier, FNV0};
use crate::with_kit;
use crate::world::{GenOpts, Hostility, PKind};
use oxmpl::base::space::StateSpace;
use serde_json::json;

#[derive(Clone, Copy, PartialEq, Eq, Debug)]
pub enum PathProp {
    C01,
    C02,
    C03,
    C04,
    C05,
}
impl PathProp {
    pub fn id(&self) -> &'static str {
        match self {
            PathProp::C01 => "C01",
            PathProp::C02 => "C02",
            PathProp::C03 => "C03",
            PathProp::C04 => "C04",
            PathProp::C05 => "C05",
        }
    }
}

fn hosts(p: PathProp) -> Vec<Hostility> {
    use Hostility::*;
    match p {
        PathProp::C01 => vec![Plain, InvalidStart, InvalidStart, GoalOverlap, GoalOverlap, GoalInvalid, Free],
        PathProp::C02 => vec![Plain, Plain, GoalOverlap, Free],
        PathProp::C03 => vec![Plain, Plain, Plain, GoalOverlap, Free],
        PathProp::C04 => vec![Plain, Free, Free, GoalOverlap],
        PathProp::C05 => vec![Plain, Free, Free],
    }
}

pub fn hash_path(p: &[Vec<f64>]) -> u64 {
    let mut h = crate::util::fnv(FNV0, p.len() as u64);
    for s in p {
        h = hash_f64s(h, s);
    }
    h
}

/// Apply the oracle of `prop` to one executed scenario.
pub fn judge<K: Kit>(prop: PathProp, ctx: &Ctx, b: &mut Batch, kit: &K, sc: &Scenario, d: &crate::drv::Drv<K>, res: &Res) {
    let pname = sc.params.kind.name();
    let wname = sc.problem.spec.wrap.name();
    b.count(&format!("result[{pname}][{}]", match res {
        Res::Path(_) => "path",
        Res::Err(ErrKind::Timeout) => "timeout",
        Res::Err(ErrKind::NoSolutionFound) => "nosolution",
        Res::Err(ErrKind::InvalidStartState) => "invalidstart",
        Res::Err(_) => "othererr",
        Res::Panic { .. } => "panic",
        Res::Budget => "budget",
        Res::Done => "done",
    }), 1);
    let eval = match WorldEval::<K>::new(kit, &sc.problem.world) {
        Ok(e) => e,
        Err(e) => {
            ctx.inconclusive(e);
            return;
        }
    };
    let sp = &eval.sp;
    let replay = |extra: serde_json::Value| {
        let mut v = sc.to_json();
        v["property"] = json!(prop.id());
        v["observed"] = extra;
        v
    };
    let start_state = kit.unflat(&sc.problem.start);
    let start_valid = eval.valid(&start_state, &sc.problem.start);
    // with several start states the invalid-start error is only *required* when none is valid
    // (the library looks at the first entry; a planner may legitimately use any valid one)
    let any_extra_valid = sc.problem.extra_starts.iter().any(|e| eval.valid(&kit.unflat(e), e));

    if prop == PathProp::C01 {
        // invalid start must be reported as such by an initialised planner
        if !start_valid && !any_extra_valid {
            b.count("invalid_start_cases", 1);
            let roadmap_nonempty = match d.snapshot() {
                Snap::Roadmap(r) => !r.is_empty(),
                _ => true,
            };
            match res {
                Res::Err(ErrKind::InvalidStartState) => b.count("invalid_start_reported", 1),
                Res::Panic { .. } | Res::Budget => {}
                Res::Err(ErrKind::UnsampledStateSpace) if !roadmap_nonempty => {}
                other => {
                    ctx.violate(
                        &format!("invalid-start-not-reported:{pname}:{}", if other.is_path() { "path-returned" } else { "other-error" }),
                        format!("start {:?} is rejected by the checker but solve returned {}", sc.problem.start, other.short()),
                        replay(other.to_json()),
                    );
                }
            }
        }
    }
    let path = match res {
        Res::Path(p) => p,
        _ => return,
    };
    b.count(&format!("paths[{pname}]"), 1);
    b.count(&format!("paths_in[{wname}]"), 1);
    if path.len() >= 3 {
        b.distinct.insert(hash_path(path));
    }
    if b.samples.len() < 2 && path.len() >= 3 {
        b.sample(json!({"scenario": sc.describe(), "path_states": path.len(), "first": fjs(&path[0]), "last": fjs(path.last().unwrap())}));
    }
    match prop {
        PathProp::C01 => {
            for (sig, det) in path_validity(kit, &eval, path) {
                ctx.violate(&format!("{sig}:{pname}"), det, replay(res.to_json()));
            }
            b.count("path_states_checked", path.len() as u64);
        }
        PathProp::C02 => {
            for (sig, det) in path_endpoints(kit, sp, &sc.problem, path) {
                ctx.violate(&format!("{sig}:{pname}"), det, replay(res.to_json()));
            }
            // which RRT-Connect assembly produced it (evidence only)
            if sc.params.kind == PKind::Connect {
                if let Snap::Trees(a, g) = d.snapshot() {
                    let last = path.last().unwrap();
                    let in_goal_tree = g.iter().any(|n| n.s.iter().zip(last.iter()).all(|(x, y)| x.to_bits() == y.to_bits()));
                    let last_in_start = a.iter().any(|n| n.s.iter().zip(last.iter()).all(|(x, y)| x.to_bits() == y.to_bits()));
                    b.count(if in_goal_tree { "connect_assembly[junction]" } else if last_in_start { "connect_assembly[direct]" } else { "connect_assembly[unknown]" }, 1);
                }
            }
        }
        PathProp::C03 => {
            let log = d.log.borrow();
            let acc = Accepted::<K>::from_log(kit, sp, &log.recs, &sc.problem.start);
            let mut worst = 0.0f64;
            for (sig, det) in path_coverage(kit, sp, &eval, &acc, path, &mut worst) {
                ctx.violate(&format!("{sig}:{pname}"), det, replay(res.to_json()));
            }
            b.max("worst_gap_over_lvs", worst);
            b.count("segments_checked", path.len().saturating_sub(1) as u64);
            b.count("accepted_queries_indexed", acc.states.len() as u64);
            // edge-kind accounting from the snapshot
            edge_kinds(b, d, path, sc);
        }
        PathProp::C04 => {
            let log = d.log.borrow();
            let goal_samples: Vec<Vec<f64>> = log.recs.iter().filter_map(|r| if let Ev::GoalSample(f) = &r.ev { Some(f.clone()) } else { None }).collect();
            let (f, pre) = path_bounds(&sc.problem, &goal_samples, path);
            if !pre {
                b.count("precondition_failed(start/goal sample out of bounds)", 1);
            } else {
                b.count("paths_with_precondition", 1);
                b.count("path_states_checked", path.len() as u64);
            }
            for (sig, det) in f {
                ctx.violate(&format!("{sig}:{pname}"), det, replay(res.to_json()));
            }
        }
        PathProp::C05 => {
            let (f, worst) = path_steps(kit, sp, &sc.params, path);
            b.max("worst_step_minus_limit", worst);
            b.count("segments_checked", path.len().saturating_sub(1) as u64);
            for (sig, det) in f {
                ctx.violate(&format!("{sig}:{pname}"), det, replay(res.to_json()));
            }
        }
    }
    let _ = sp.get_longest_valid_segment_length();
}

/// Count path segments by the way the edge was created (evidence for C03).
fn edge_kinds<K: Kit>(b: &mut Batch, d: &crate::drv::Drv<K>, path: &[Vec<f64>], sc: &Scenario) {
    let same = |a: &[f64], c: &[f64]| a.len() == c.len() && a.iter().zip(c).all(|(x, y)| x.to_bits() == y.to_bits());
    match d.snapshot() {
        Snap::Tree(t) => {
            for i in 0..path.len().saturating_sub(1) {
                // child = path[i+1]; find node index
                if let Some(ci) = t.iter().position(|n| same(&n.s, &path[i + 1])) {
                    let pi = t[ci].parent;
                    let kind = match (sc.params.kind, pi) {
                        (PKind::Star, Some(p)) if p > ci => "rrtstar-rewired-edge",
                        (PKind::Star, Some(_)) => "rrtstar-extension-or-chosen-parent",
                        _ => "extension",
                    };
                    b.count(&format!("edge_kind[{kind}]"), 1);
                }
            }
        }
        Snap::Trees(a, g) => {
            for i in 0..path.len().saturating_sub(1) {
                let ina = |s: &[f64]| a.iter().any(|n| same(&n.s, s));
                let ing = |s: &[f64]| g.iter().any(|n| same(&n.s, s));
                let in_a = ina(&path[i]) && ina(&path[i + 1]);
                let in_g = ing(&path[i]) && ing(&path[i + 1]);
                // the junction state is stored in both trees; the segment on the side of the tree
                // that was connected to it is the edge created by the connect step
                let junction = (ina(&path[i]) && ing(&path[i])) || (ina(&path[i + 1]) && ing(&path[i + 1]));
                b.count(&format!("edge_kind[{}]", if junction { "connect-junction" } else if in_a { "connect-start-tree-edge" } else if in_g { "connect-goal-tree-edge" } else { "connect-unclassified" }), 1);
            }
        }
        Snap::Roadmap(_) => {
            if path.len() >= 2 {
                b.count("edge_kind[prm-start-connection]", 1);
                b.count("edge_kind[prm-link]", (path.len() - 2) as u64);
            }
        }
    }
}

pub fn run_case(prop: PathProp, ctx: &Ctx, b: &mut Batch, sc: &Scenario) {
    b.evaluations += 1;
    with_kit!(sc.problem.spec, K, kit => {
        // every 16th run: the planner object was used on another (larger, coarser) space first
        let elsewhere = sc.script.is_none() && b.evaluations % 16 == 5;
        if elsewhere {
            b.count("runs_after_a_life_on_another_space", 1);
        }
        match if elsewhere { super::plan::exec_after_life_elsewhere::<K>(&kit, sc) } else { exec::<K>(&kit, sc) } {
            Ok((d, res)) => judge::<K>(prop, ctx, b, &kit, sc, &d, &res),
            Err(e) => { b.count("scenario_not_executable", 1); let _ = e; }
        }
    });
}

pub fn run(prop: PathProp, tier: Tier, seed: u64) -> i32 {
    let ctx = Ctx::new(prop.id(), tier, seed, "exploration");
    let n_cases = match prop {
        PathProp::C03 => tier.pick(8_000, 600_000),
        _ => tier.pick(16_000, 1_500_000),
    };
    let hs = hosts(prop);
    // non-convex angular bounds matter for C04 (known finding K-1); the other path properties
    // must hold there too, so C03 and C05 explore them as well
    let opts = GenOpts { nonconvex: matches!(prop, PathProp::C04 | PathProp::C03 | PathProp::C05), ..GenOpts::default() };
    let shards = 64.min(n_cases);
    par_shards(shards, crate::util::n_threads(), |sh| {
        let mut b = Batch::default();
        let mut i = sh;
        while i < n_cases {
            let mut r = Sm::derive(seed, &[prop as u64 + 1, i as u64]);
            let extreme = matches!(prop, PathProp::C03 | PathProp::C05);
            let cfg = cfg_for(&mut r, i, &hs, if extreme { 0.35 } else { 0.1 }, &opts, tier.pick(1500, 4000), match prop {
                PathProp::C01 | PathProp::C02 | PathProp::C03 => 0.25,
                _ => 0.1,
            });
            let mut sc = make_scenario(&mut r, &cfg);
            if prop == PathProp::C01 && cfg.host == Hostility::InvalidStart && r.bool(0.3) {
                sc.problem.put_goal_on_start();
                b.count("invalid_start_inside_the_goal", 1);
            }
            odd_start(prop, &mut r, &mut sc, &mut b);
            multi_start(prop, &mut r, &mut sc, &mut b);
            // C04: boxes whose sides are equally long but lie at different offsets (every side is
            // stretched upwards to the longest one, so start, goal and world stay where they are)
            if prop == PathProp::C04 && r.bool(0.1) {
                for c in sc.problem.spec.comps.iter_mut() {
                    if let crate::spec::CK::R { n, bounds: Some(bs) } = &mut c.kind {
                        if *n >= 2 && bs.iter().all(|(l, h)| l.is_finite() && h.is_finite()) {
                            let w = bs.iter().map(|(l, h)| h - l).fold(0.0f64, f64::max);
                            for bnd in bs.iter_mut() {
                                bnd.1 = bnd.0 + w;
                            }
                            b.count("boxes_with_equal_sides_at_different_offsets", 1);
                        }
                    }
                }
            }
            run_case(prop, &ctx, &mut b, &sc);
            i += shards;
        }
        ctx.merge(b);
    });
    if matches!(prop, PathProp::C01 | PathProp::C03 | PathProp::C05) {
        // hand-shaped worlds: a tree that spirals around a finite wall (steps.rs `spiral_case`)
        let mut b = Batch::default();
        for v in 0..64usize {
            for kind in [PKind::Star, PKind::Rrt, PKind::Connect] {
                let mut r = Sm::derive(seed, &[prop as u64 + 270, v as u64]);
                let case = super::steps::spiral_case(&mut r, v, kind);
                let script: Vec<Vec<f64>> = case.script.iter().map(|i| case.letters[*i].clone()).collect();
                let sc = Scenario { problem: case.problem, params: case.params, iters: script.len() as u64, prm_samples: 0, script: Some(script), query_budget: 1_500_000 };
                run_case(prop, &ctx, &mut b, &sc);
                b.count("spiral_cases", 1);
            }
        }
        ctx.merge(b);
    }
    if prop == PathProp::C02 {
        c02_histories(&ctx, tier, seed);
        ctx.require("history_paths_after_problem_change");
        twins(PathProp::C02, &ctx, tier, seed);
        c02_special(&ctx, tier, seed);
        c02_twin_resetup(&ctx, tier, seed);
        ctx.require("deep_tree_paths");
        ctx.require("overhanging_goal_paths");
        ctx.require("twin_paths[zero-weight-component]");
        ctx.require("twin_paths[antipodal-quaternion]");
    }
    if prop == PathProp::C03 {
        c03_histories(&ctx, tier, seed);
        ctx.require("history_paths_from_later_solves");
        c03_timed(&ctx, tier, seed);
        ctx.require("timed_paths");
        ctx.require("timed_calls_cut_short_by_the_clock");
    }
    if prop == PathProp::C05 {
        c05_histories(&ctx, tier, seed);
        ctx.require("history_paths_after_step_change");
        c05_deep(&ctx, tier, seed);
        ctx.require("deep_tree_paths");
    }
    if prop == PathProp::C01 {
        // declared bounds so wide that the space's extent (and with it the motion-check
        // resolution) overflows to +inf, around an ordinary world: a motion check then consists of
        // the end-point query alone, and that query must still be made
        let n_wide = tier.pick(240, 20_000);
        par_shards(48.min(n_wide), crate::util::n_threads(), |sh| {
            let mut b = Batch::default();
            let mut i = sh;
            while i < n_wide {
                let mut r = Sm::derive(seed, &[prop as u64 + 370, i as u64]);
                let mut cfg = cfg_for(&mut r, i, &[Hostility::GoalOverlap, Hostility::GoalInvalid, Hostility::Plain, Hostility::InvalidStart], 0.0, &GenOpts::default(), 300, 0.0);
                cfg.wrap = crate::spec::Wrap::R;
                cfg.planner = [PKind::Rrt, PKind::Star, PKind::Connect, PKind::Rrt][(i / 3) % 4];
                let mut sc = make_scenario(&mut r, &cfg);
                for c in sc.problem.spec.comps.iter_mut() {
                    if let crate::spec::CK::R { n, bounds } = &mut c.kind {
                        *bounds = Some(vec![(-1e200, 1e200); *n]);
                    }
                }
                sc.params.goal_bias = *r.pick(&[0.3, 0.6, 1.0]);
                sc.problem.goal.mode = crate::world::GoalMode::Rng;
                sc.iters = sc.iters.min(200);
                sc.problem.tags.push("extent-overflows".into());
                run_case(prop, &ctx, &mut b, &sc);
                b.count("cases_with_overflowing_extent", 1);
                i += 48.min(n_wide);
            }
            ctx.merge(b);
        });
        c01_histories(&ctx, tier, seed);
        ctx.require("history_paths_after_checker_change");
        twins(PathProp::C01, &ctx, tier, seed);
        ctx.require("twin_paths[zero-weight-component]");
        ctx.require("twin_paths[antipodal-quaternion]");
    }
    for p in crate::world::ALL_PLANNERS {
        ctx.require(&format!("paths[{}]", p.name()));
    }
    for w in crate::spec::ALL_WRAPS {
        ctx.require(&format!("paths_in[{}]", w.name()));
    }
    let (rule, assumptions): (&str, Vec<&str>) = match prop {
        PathProp::C01 => {
            ctx.require("invalid_start_cases");
            ctx.require("invalid_start_inside_the_goal");
            ("cases = planner runs (4 planners x 6 space families, generated worlds incl. start marginally/deeply inside an obstacle and goal regions overlapping or covered by obstacles, planner-RNG and scripted sample sequences, virtual-time iteration budgets; plus re-setup histories with a changed checker, and degenerate-metric cases in which invalid states at distance exactly 0 from the start - a different value of a zero-weight component, the antipodal quaternion - are offered as goal / uniform samples); every state of every returned path is re-evaluated with the pure validity function; distinct+non-trivial = distinct returned paths (bit pattern) with >= 3 states", vec!["the validity function is pure and deterministic (built from slab / shell primitives)", "an invalid start must yield InvalidStartState from an initialised planner (PRM: non-empty roadmap)"])
        }
        PathProp::C02 => ("cases = planner runs as for C01 on feasible-looking worlds, call histories with replaced problems, and degenerate-metric cases (tree nodes / milestones at distance exactly 0 from the start that are different states: zero-weight component twins, antipodal quaternions); first state compared bit for bit with the installed start, goal predicate re-evaluated on the last state; distinct+non-trivial = distinct returned paths with >= 3 states", vec!["histories with re-setup / replaced problems are exercised by the C08 workload, which applies the same endpoint oracle"]),
        PathProp::C03 => {
            for k in ["edge_kind[extension]", "edge_kind[connect-junction]", "edge_kind[connect-goal-tree-edge]", "edge_kind[prm-link]", "edge_kind[prm-start-connection]", "edge_kind[rrtstar-rewired-edge]", "edge_kind[rrtstar-extension-or-chosen-parent]"] {
                ctx.require(k);
            }
            ("cases = planner runs on worlds with walls thicker than the resolution but thinner than the step, slivers, shells, resolution fractions 2e-3..1 and steps up to 10x the extent; for every segment of every returned path the accepted validity queries lying on it (metric test) must leave no gap above the longest valid segment, and a dense re-check (spacing lvs/64) must find no invalid stretch >= lvs; distinct+non-trivial = distinct returned paths with >= 3 states", vec!["on-segment test d(a,s)+d(s,b) <= d(a,b) + 1e-9(1+d) (+1e-7 with SO3)", "for exactly antipodal endpoints two shortest arcs exist and the metric test cannot tell them apart"])
        }
        PathProp::C04 => {
            ctx.require("paths_with_precondition");
            ("cases = planner runs on bounded spaces (boxes, angular intervals of every span incl. touching +-pi and non-convex ones, cones incl. radius > pi/2, compounds); when start and all goal samples handed out are in bounds every path state must pass an independent bounds test (1e-9; 1e-7 for cones); distinct+non-trivial = distinct returned paths with >= 3 states", vec!["violations inside non-convex angular regions are the known finding K-1 and are keyed on the violating component kind"])
        }
        PathProp::C05 => ("cases = planner runs with step sizes / radii from 1e-3x to 10x the space diameter; consecutive path states must be within the configured limit in the space's own metric; distinct+non-trivial = distinct returned paths with >= 3 states", vec!["tolerance: rounding + 5e-6 per unit weight of SO3 components"]),
    };
    ctx.finish(rule, &assumptions, json!({"cases": n_cases}))
}

/// Problem definitions with two or three start states (C01, C02, C03, C05). The extra entries
/// are valid states, states deep inside an obstacle, or states *marginally* inside one (found by
/// bisection between an invalid and a valid state, so that a motion leaving it is valid from the
/// first interpolated state on). Whatever a planner makes of the extra entries, a returned path
/// must satisfy the path properties; an invalid entry must never appear on it.
fn multi_start(prop: PathProp, r: &mut Sm, sc: &mut Scenario, b: &mut Batch) {
    if !matches!(prop, PathProp::C01 | PathProp::C02 | PathProp::C03 | PathProp::C05) || !r.bool(0.12) {
        return;
    }
    add_extra_starts(r, sc, b);
}

pub fn add_extra_starts_to(r: &mut Sm, problem: &mut crate::world::Problem, b: &mut Batch) {
    let mut sc = Scenario { problem: problem.clone(), params: crate::world::PParams { kind: PKind::Rrt, max_distance: 1.0, goal_bias: 0.0, search_radius: 1.0, connection_radius: 1.0, seed: None }, iters: 0, prm_samples: 0, script: None, query_budget: 0 };
    add_extra_starts(r, &mut sc, b);
    *problem = sc.problem;
}

fn add_extra_starts(r: &mut Sm, sc: &mut Scenario, b: &mut Batch) {
    let spec = sc.problem.spec.clone();
    with_kit!(spec, K, kit => {
        let Ok(ev) = WorldEval::<K>::new(&kit, &sc.problem.world) else { return };
        let cands: Vec<Vec<f64>> = (0..24).map(|_| crate::world::rand_state(r, &spec)).collect();
        let valid: Vec<&Vec<f64>> = cands.iter().filter(|c| ev.valid(&kit.unflat(c), c)).collect();
        let invalid: Vec<&Vec<f64>> = cands.iter().filter(|c| !ev.valid(&kit.unflat(c), c)).collect();
        let n_extra = 1 + r.below(2);
        for _ in 0..n_extra {
            let kind = r.below(4);
            let e: Option<Vec<f64>> = match kind {
                0 if !valid.is_empty() => Some((*r.pick(&valid)).clone()),
                1 if !invalid.is_empty() => Some((*r.pick(&invalid)).clone()),
                2 if !valid.is_empty() && !invalid.is_empty() => {
                    // marginally inside: bisect towards the boundary, keep the invalid end
                    let (bi, gi) = (r.below(invalid.len()), r.below(valid.len()));
                    let (mut bad, mut good) = (kit.unflat(invalid[bi]), kit.unflat(valid[gi]));
                    for _ in 0..(12 + r.below(30)) {
                        let mut mid = bad.clone();
                        ev.sp.interpolate(&bad, &good, 0.5, &mut mid);
                        let fm = K::flat(&mid);
                        if ev.valid(&mid, &fm) { good = mid } else { bad = mid }
                    }
                    Some(K::flat(&bad))
                }
                // a valid state next to the goal (fewer hops from there than from the first start)
                _ => {
                    let mut g = kit.unflat(&sc.problem.goal.centre);
                    if let Some(v) = valid.first() {
                        let mut out = g.clone();
                        ev.sp.interpolate(&g, &kit.unflat(v), 0.1, &mut out);
                        g = out;
                    }
                    let f = K::flat(&g);
                    if ev.valid(&g, &f) { Some(f) } else { None }
                }
            };
            if let Some(e) = e {
                b.count(&format!("extra_start_states[{}]", ["valid", "invalid", "marginally-invalid", "valid-near-goal"][kind]), 1);
                sc.problem.extra_starts.push(e);
            }
        }
        if !sc.problem.extra_starts.is_empty() {
            sc.problem.tags.push("several-start-states".into());
            b.count("cases_with_several_start_states", 1);
            // now and then the *first* entry is a valid state just outside the sampling box of a
            // real-vector component (legitimate: bounds only confine the samples), so that the
            // listed states differ in whether they satisfy the bounds as well
            if r.bool(0.3) {
                let offs = spec.offsets();
                for (ci, c) in spec.comps.iter().enumerate() {
                    if let crate::spec::CK::R { n, bounds: Some(bs) } = &c.kind {
                        let j = r.below(*n);
                        let (lo, hi) = bs[j];
                        if lo.is_finite() && hi.is_finite() {
                            let mut cand = sc.problem.start.clone();
                            cand[offs[ci] + j] = if r.bool(0.5) { hi + 0.05 * (hi - lo) } else { lo - 0.05 * (hi - lo) };
                            if ev.valid(&kit.unflat(&cand), &cand) {
                                sc.problem.start = cand;
                                sc.problem.tags.push("first-start-outside-the-box".into());
                                b.count("cases_with_first_start_outside_the_box_and_further_starts", 1);
                            }
                        }
                        break;
                    }
                }
            }
        }
    });
}

/// Start states in unusual but legitimate representations. C04 / C05: an angle stored several
/// turns away from [-pi, pi] (the public `value` field; `satisfies_bounds` accepts it, and the
/// planners must take the short way from it all the same). C05 only (C04 presupposes an in-bounds
/// start): a start outside the sampling box of a real-vector component.
fn odd_start(prop: PathProp, r: &mut Sm, sc: &mut Scenario, b: &mut Batch) {
    use crate::spec::CK;
    if !matches!(prop, PathProp::C04 | PathProp::C05) || !r.bool(0.12) {
        return;
    }
    let spec = sc.problem.spec.clone();
    let offs = spec.offsets();
    let so2: Vec<usize> = (0..spec.comps.len()).filter(|i| matches!(spec.comps[*i].kind, CK::So2 { .. })).collect();
    let boxed: Vec<usize> = (0..spec.comps.len()).filter(|i| matches!(&spec.comps[*i].kind, CK::R { bounds: Some(_), .. })).collect();
    if !so2.is_empty() && (prop == PathProp::C04 || boxed.is_empty() || r.bool(0.5)) {
        let ci = *r.pick(&so2);
        let k = *r.pick(&[-3.0, -2.0, -1.0, 1.0, 2.0, 3.0]);
        sc.problem.start[offs[ci]] += k * 2.0 * std::f64::consts::PI;
        sc.problem.tags.push("start-angle-unnormalised".into());
        b.count("starts_with_unnormalised_angle", 1);
    } else if prop == PathProp::C05 && !boxed.is_empty() {
        let ci = *r.pick(&boxed);
        if let CK::R { n, bounds: Some(bs) } = &spec.comps[ci].kind {
            let j = r.below(*n);
            let (lo, hi) = bs[j];
            if lo.is_finite() && hi.is_finite() {
                let out = (hi - lo).max(sc.params.max_distance) * r.range(0.2, 2.0);
                sc.problem.start[offs[ci] + j] = if r.bool(0.5) { hi + out } else { lo - out };
                sc.problem.tags.push("start-outside-the-box".into());
                b.count("starts_outside_the_box", 1);
            }
        }
    }
}

pub fn replay(prop: PathProp, v: &serde_json::Value, file: &str) -> i32 {
    let sc = Scenario::from_json(v);
    let mut ctx = Ctx::new(prop.id(), Tier::Quick, 0, "exploration");
    ctx.replay_of = Some(file.to_string());
    let mut b = Batch::default();
    run_case(prop, &ctx, &mut b, &sc);
    ctx.merge(b);
    crate::util::say(&format!("replayed scenario: {}", sc.describe()));
    ctx.finish("replay of one recorded scenario", &[], json!({"replay": true}))
}

/// C02 over call histories: every Ok path must start at the start of the problem installed
/// most recently (setup / set_problem_definition) and end in its goal.
fn c02_histories(ctx: &Ctx, tier: Tier, seed: u64) {
    use super::hist::{run_history, Op};
    let n = tier.pick(4_000, 200_000);
    let shards = 64;
    par_shards(shards, crate::util::n_threads(), |sh| {
        let mut b = Batch::default();
        let mut i = sh;
        while i < n {
            let mut r = Sm::derive(seed, &[202, i as u64]);
            let mut h = super::c08::base_history(&mut r, i);
            // valid starts only: C02 is about which problem is answered
            for k in 0..2 {
                let spec = h.problems[k].spec.clone();
                let host = *r.pick(&[Hostility::Free, Hostility::Plain]);
                h.problems[k] = crate::world::gen_problem(&mut r, &spec, host);
                if h.params.kind == PKind::Prm {
                    h.problems[k].goal.radius *= 2.5;
                }
            }
            let al = super::c08::op_alphabet(h.params.kind, &mut r);
            let len = 2 + r.below(7);
            h.ops = (0..len).map(|_| r.pick(&al).clone()).collect();
            if h.params.kind == PKind::Prm && i % 5 == 4 {
                // definitions that come and go (the runner frees replaced definitions): P1 answered,
                // P2 set but never queried, then a new definition (P1's start, P2's goal)
                let mut p3 = h.problems[0].clone();
                p3.goal = h.problems[1].goal.clone();
                p3.infeasible = None;
                h.problems[0].tags.push("drop-old-definitions".into());
                h.problems.push(p3);
                h.ops = vec![Op::Setup(0), Op::Construct, Op::Solve(10), Op::SetPd(1), Op::SetPd(2), Op::Solve(10), Op::SetPd(0), Op::SetPd(1), Op::Solve(10)];
                b.count("prm_histories_with_short_lived_definitions", 1);
            }
            b.evaluations += 1;
            with_kit!(h.problems[0].spec, K, kit => {
                if let Ok((_, recs)) = run_history::<K>(&kit, &h, false, 3_000_000) {
                    let Ok(sp) = kit.build() else { continue };
                    let mut changes = 0;
                    for c in &recs {
                        if matches!(c.op, Op::Setup(_) | Op::SetupMixed(..) | Op::SetPd(_)) {
                            changes += 1;
                        }
                        if let (Res::Path(p), Some(pi)) = (&c.res, c.pd) {
                            b.count("history_paths", 1);
                            if changes >= 2 {
                                b.count("history_paths_after_problem_change", 1);
                            }
                            if p.len() >= 3 {
                                b.distinct.insert(hash_path(p));
                            }
                            for (sig, det) in path_endpoints(&kit, &sp, &h.problems[pi], p) {
                                let mut v = h.to_json();
                                v["property"] = json!("C02");
                                ctx.violate(&format!("{sig}:{}:after-history", h.params.kind.name()), format!("{det} [history: {}; installed problem P{}]", h.describe(), pi + 1), v);
                            }
                        }
                    }
                }
            });
            i += shards;
        }
        ctx.merge(b);
    });
}

/// C01 over call histories: the same problem object is set up again with a different
/// validity checker (a changed environment); every returned path must be valid for the checker
/// installed at that moment.
fn c01_histories(ctx: &Ctx, tier: Tier, seed: u64) {
    use super::hist::{run_history, Op};
    let n = tier.pick(3_000, 150_000);
    let shards = 64;
    par_shards(shards, crate::util::n_threads(), |sh| {
        let mut b = Batch::default();
        let mut i = sh;
        while i < n {
            let mut r = Sm::derive(seed, &[101, i as u64]);
            let mut h = super::c08::base_history(&mut r, i);
            let spec = h.problems[0].spec.clone();
            h.problems[0] = crate::world::gen_problem(&mut r, &spec, Hostility::Free);
            // the second environment: same start / goal, but obstacles (start kept valid)
            let mut p2 = crate::world::gen_problem(&mut r, &spec, Hostility::Plain);
            let mut tries = 0;
            while p2.world.prims.is_empty() && tries < 5 {
                p2 = crate::world::gen_problem(&mut r, &spec, Hostility::Plain);
                tries += 1;
            }
            h.problems[1] = p2;
            if h.params.kind == PKind::Prm {
                h.problems[0].goal.radius *= 2.5;
            }
            let n_it = 10 + r.below(200) as u64;
            h.ops = if h.params.kind == PKind::Prm {
                vec![Op::Setup(0), Op::Construct, Op::Solve(10), Op::SetupMixed(0, 1), Op::Construct, Op::Solve(10)]
            } else {
                vec![Op::Setup(0), Op::Solve(n_it), Op::SetupMixed(0, 1), Op::Solve(n_it), Op::Solve(n_it)]
            };
            // PRM, every third history: a query from a start state marginally inside an obstacle
            // (refused), then a query whose goal is a tiny ball around that very state. Whatever
            // the refused query left behind, no returned path may end in (or pass through) it.
            if h.params.kind == PKind::Prm && i % 3 == 0 {
                let mut p0 = crate::world::gen_problem(&mut r, &spec, Hostility::Plain);
                p0.goal.radius *= 2.5;
                let mut bad: Option<Vec<f64>> = None;
                with_kit!(spec, K, kit => {
                    if let Ok(ev) = WorldEval::<K>::new(&kit, &p0.world) {
                        let cands: Vec<Vec<f64>> = (0..24).map(|_| crate::world::rand_state(&mut r, &spec)).collect();
                        let inv = cands.iter().find(|c| !ev.valid(&kit.unflat(c), c));
                        let val = cands.iter().find(|c| ev.valid(&kit.unflat(c), c));
                        if let (Some(inv), Some(val)) = (inv, val) {
                            let (mut lo, mut hi) = (kit.unflat(inv), kit.unflat(val));
                            for _ in 0..(10 + r.below(30)) {
                                let mut mid = lo.clone();
                                ev.sp.interpolate(&lo, &hi, 0.5, &mut mid);
                                let fm = K::flat(&mid);
                                if ev.valid(&mid, &fm) { hi = mid } else { lo = mid }
                            }
                            bad = Some(K::flat(&lo));
                        }
                    }
                });
                if let Some(bad) = bad {
                    let mut p1 = p0.clone();
                    p1.start = bad.clone();
                    p1.extra_starts.clear();
                    let mut p2 = p0.clone();
                    p2.goal = crate::world::GoalSpec { centre: bad, radius: 1e-6 * spec.diameter().max(1e-6), mode: crate::world::GoalMode::Centre, fail_at: None, window: None };
                    h.problems = vec![p0, p1, p2];
                    h.ops = vec![Op::Setup(0), Op::Construct, Op::Solve(10), Op::SetPd(1), Op::Solve(10), Op::SetPd(2), Op::Solve(10), Op::SetPd(0), Op::Solve(10)];
                    b.count("prm_histories_with_refused_start_then_goal_around_it", 1);
                }
            }
            b.evaluations += 1;
            with_kit!(spec, K, kit => {
                if let Ok((_, recs)) = run_history::<K>(&kit, &h, false, 3_000_000) {
                    let evals: Vec<Option<WorldEval<K>>> = h.problems.iter().map(|p| WorldEval::<K>::new(&kit, &p.world).ok()).collect();
                    for c in &recs {
                        if let (Res::Path(p), Some(ki)) = (&c.res, c.checker) {
                            let Some(ev) = &evals[ki] else { continue };
                            b.count("history_paths", 1);
                            if ki == 1 {
                                b.count("history_paths_after_checker_change", 1);
                            }
                            if p.len() >= 3 {
                                b.distinct.insert(hash_path(p));
                            }
                            for (sig, det) in path_validity(&kit, ev, p) {
                                let mut v = h.to_json();
                                v["property"] = json!("C01");
                                ctx.violate(&format!("{sig}:{}:after-checker-change", h.params.kind.name()), format!("{det} [history: {}]", h.describe()), v);
                            }
                        }
                    }
                }
            });
            i += shards;
        }
        ctx.merge(b);
    });
}

/// C01 where the metric is degenerate: states at distance exactly 0 from the start (they
/// differ only in a zero-weight component, or are the antipodal quaternion -q) that the validity
/// checker rejects are offered as goal samples; the goal accepts them (a window on the
/// coordinate that tells the twins apart excludes the start itself). A motion of length 0 to
/// such a twin still ends in an invalid state, so it must never appear on a returned path.
/// Valid twins / valid neighbours are offered as well, so that paths do come back.
fn twins(prop: PathProp, ctx: &Ctx, tier: Tier, seed: u64) {
    use super::hist::{run_history, History, Op};
    use crate::spec::{Comp, Spec, Wrap, CK};
    use crate::world::{gen_params, GoalMode, GoalSpec, Prim, Problem, World, ALL_PLANNERS};
    let n = tier.pick(1_200, 60_000);
    let shards = 64;
    par_shards(shards, crate::util::n_threads(), |sh| {
        let mut b = Batch::default();
        let mut i = sh;
        while i < n {
            let mut r = Sm::derive(seed, &[111 + prop as u64, i as u64]);
            let planner = ALL_PLANNERS[i % 4];
            let antipodal = (i / 4) % 3 == 2;
            let (spec, start, goal, world, label) = if antipodal {
                let wrap = *r.pick(&[Wrap::So3, Wrap::Se3, Wrap::Compound]);
                let so3 = Comp { kind: CK::So3 { bounds: None }, weight: *r.pick(&[0.5, 1.0, 2.0]), frac: None };
                let tr = |n: usize| Comp { kind: CK::R { n, bounds: Some(vec![(-1.0, 1.0); n]) }, weight: 1.0, frac: None };
                let (comps, qoff) = match wrap {
                    Wrap::So3 => (vec![Comp { weight: 1.0, ..so3.clone() }], 0),
                    Wrap::Se3 => (vec![tr(3), so3.clone()], 3),
                    _ => {
                        if r.bool(0.5) {
                            (vec![so3.clone(), tr(1)], 0)
                        } else {
                            (vec![tr(2), so3.clone()], 2)
                        }
                    }
                };
                let spec = Spec { wrap, comps };
                // quaternions whose self-product is exactly 1, so d(q, -q) = 0 exactly
                let q: [f64; 4] = *r.pick(&[[0.0, 0.0, 0.0, 1.0], [0.5, 0.5, 0.5, 0.5], [0.5, -0.5, -0.5, 0.5], [0.0, 0.0, 1.0, 0.0], [-0.5, 0.5, -0.5, -0.5]]);
                let mut start = crate::world::rand_state(&mut r, &spec);
                start[qoff..qoff + 4].copy_from_slice(&q);
                let mut twin = start.clone();
                for k in 0..4 {
                    twin[qoff + k] = -q[k];
                }
                // the coordinate that tells q from -q: the first non-zero one
                let k = (0..4).find(|k| q[*k] != 0.0).unwrap();
                let tv = -q[k];
                let (wlo, whi) = if tv < 0.0 { (-1.0, tv + 0.3) } else { (tv - 0.3, 1.0) };
                let slab = Prim::Slab { idx: qoff + k, lo: tv - 0.02, hi: tv + 0.02, gaps: vec![] };
                // goal samples: the invalid twin first, then rotations near the twin (valid unless
                // they fall into the thin slab)
                let mut list = vec![twin.clone(), twin.clone()];
                for _ in 0..6 {
                    let mut g = twin.clone();
                    let mut nrm = 0.0;
                    for j in 0..4 {
                        g[qoff + j] += r.range(-0.12, 0.12);
                        nrm += g[qoff + j] * g[qoff + j];
                    }
                    for j in 0..4 {
                        g[qoff + j] /= nrm.sqrt();
                    }
                    list.push(g);
                }
                let goal = GoalSpec { centre: twin, radius: 0.6 * spec.comps.iter().map(|c| c.weight).fold(0.0, f64::max), mode: GoalMode::List(list), fail_at: None, window: Some((qoff + k, wlo, whi)) };
                (spec, start, goal, World { prims: vec![slab] }, "antipodal-quaternion")
            } else {
                let base = match r.below(3) {
                    0 => CK::R { n: 1 + r.below(2), bounds: None },
                    1 => CK::So2 { bounds: None },
                    _ => CK::R { n: 2, bounds: None },
                };
                let base = match base {
                    CK::R { n, .. } => CK::R { n, bounds: Some(vec![(-2.0, 3.0); n]) },
                    o => o,
                };
                let zero = if r.bool(0.5) { CK::R { n: 1, bounds: Some(vec![(-2.0, 3.0)]) } } else { CK::So2 { bounds: None } };
                let zc = Comp { kind: zero, weight: 0.0, frac: None };
                let bc = Comp { kind: base, weight: *r.pick(&[0.5, 1.0, 3.0]), frac: None };
                let zero_first = r.bool(0.5);
                let comps = if zero_first { vec![zc, bc] } else { vec![bc, zc] };
                let spec = Spec { wrap: Wrap::Compound, comps };
                let zi = if zero_first { 0 } else { spec.offsets()[1] };
                let mut start = crate::world::rand_state(&mut r, &spec);
                start[zi] = r.range(-1.8, 0.0);
                // window [0.5, 2.5] on the zero-weight coordinate, obstacle slab inside it
                let (slo, shi) = (r.range(0.8, 1.2), r.range(1.8, 2.2));
                let slab = Prim::Slab { idx: zi, lo: slo, hi: shi, gaps: vec![] };
                let twin_at = |x: f64| {
                    let mut t = start.clone();
                    t[zi] = x;
                    t
                };
                let mut list = vec![twin_at(r.range(slo, shi)), twin_at(r.range(slo, shi)), twin_at(slo), twin_at(shi)];
                for _ in 0..3 {
                    list.push(twin_at(if r.bool(0.5) { r.range(0.5, slo - 0.01) } else { r.range(shi + 0.01, 2.5) }));
                    list.push(twin_at(r.range(slo, shi)));
                }
                let goal = GoalSpec { centre: twin_at(1.5), radius: *r.pick(&[0.0, 1e-9, 0.05]), mode: GoalMode::List(list), fail_at: None, window: Some((zi, 0.5, 2.5)) };
                (spec, start, goal, World { prims: vec![slab] }, "zero-weight-component")
            };
            // C02 is about the end points: half of its cases have no obstacle, so that twins of
            // the start become tree nodes / roadmap milestones
            let world = if prop == PathProp::C02 && r.bool(0.5) { World::default() } else { world };
            let problem = Problem { spec: spec.clone(), world, start, goal, infeasible: None, tags: vec![format!("twin:{label}")], extra_starts: vec![] };
            let mut params = gen_params(&mut r, &spec, planner, false);
            params.goal_bias = *r.pick(&[0.3, 0.5, 0.9]);
            let ops = if planner == PKind::Prm { vec![Op::Setup(0), Op::Construct, Op::Solve(10)] } else { vec![Op::Setup(0), Op::Solve(12 + r.below(30) as u64)] };
            // now and then the twins also come out of the uniform sampler
            let script = if r.bool(if prop == PathProp::C02 { 0.6 } else { 0.3 }) {
                let GoalMode::List(l) = &problem.goal.mode else { unreachable!() };
                let mut sc: Vec<Vec<f64>> = l.clone();
                for _ in 0..6 {
                    sc.push(crate::world::rand_state(&mut r, &spec));
                }
                for j in (1..sc.len()).rev() {
                    let k = r.below(j + 1);
                    sc.swap(j, k);
                }
                Some(sc)
            } else {
                None
            };
            let h = History { problems: vec![problem], params, prm_samples: 10 + r.below(20) as u64, ops, uniform_fail_at: None, starts_override: None, script, prm_build_override: None };
            b.evaluations += 1;
            with_kit!(spec, K, kit => {
                if let Ok((_, recs)) = run_history::<K>(&kit, &h, false, 3_000_000) {
                    if let Ok(ev) = WorldEval::<K>::new(&kit, &h.problems[0].world) {
                        b.count(&format!("twin_cases[{label}]"), 1);
                        for c in &recs {
                            if let Res::Path(p) = &c.res {
                                b.count(&format!("twin_paths[{label}]"), 1);
                                if p.len() >= 2 {
                                    b.distinct.insert(hash_path(p));
                                }
                                if prop == PathProp::C01 {
                                    for (sig, det) in path_validity(&kit, &ev, p) {
                                        let mut v = h.to_json();
                                        v["property"] = json!("C01");
                                        ctx.violate(&format!("{sig}:{}:zero-distance-twin", h.params.kind.name()), format!("{det} [{label}: the state is at distance 0 from the start but invalid]"), v);
                                    }
                                } else if let Ok(sp) = kit.build() {
                                    for (sig, det) in path_endpoints(&kit, &sp, &h.problems[0], p) {
                                        let mut v = h.to_json();
                                        v["property"] = json!("C02");
                                        ctx.violate(&format!("{sig}:{}:zero-distance-twin", h.params.kind.name()), format!("{det} [{label}: states at distance 0 from the start / from each other are not interchangeable]"), v);
                                    }
                                }
                            }
                        }
                    }
                }
            });
            i += shards;
        }
        ctx.merge(b);
    });
}

/// C03 under a clock that advances with every validity query and sampler call (the C06 cost
/// model): a first `solve` whose budget runs out in the middle of an iteration - typically in
/// the middle of a long motion check - followed by further `solve` calls on the same planner
/// with a generous budget. Whatever the first call left in the tree, every segment of every
/// path returned later must have been checked along its whole length.
fn c03_timed(ctx: &Ctx, tier: Tier, seed: u64) {
    use crate::monitor::SampleMode;
    const TICK: u64 = 1_000;
    let n = tier.pick(400, 40_000);
    let shards = 64;
    let hs = hosts(PathProp::C03);
    par_shards(shards, crate::util::n_threads(), |sh| {
        let mut b = Batch::default();
        let mut i = sh;
        while i < n {
            let mut r = Sm::derive(seed, &[313, i as u64]);
            let opts = GenOpts { nonconvex: false, ..GenOpts::default() };
            let mut cfg = cfg_for(&mut r, i, &hs, 0.5, &opts, 400, 0.0);
            // the tree planners keep their tree between solve calls; PRM's query is stateless
            cfg.planner = [PKind::Rrt, PKind::Connect, PKind::Star, PKind::Connect][(i / 6) % 4];
            let mut sc = make_scenario(&mut r, &cfg);
            // long motion checks: at least ~80 queries per full step, at most ~600
            let lvs = crate::refm::ref_lvs(&sc.problem.spec).max(1e-12);
            let per_motion = (sc.params.step_limit().min(sc.problem.spec.diameter()) / (0.1 * lvs)).ceil().max(1.0);
            let k = if per_motion < 80.0 { 80.0 / per_motion } else if per_motion > 600.0 { 600.0 / per_motion } else { 1.0 };
            sc.params.max_distance *= k;
            sc.params.search_radius *= k;
            b.evaluations += 1;
            with_kit!(sc.problem.spec, K, kit => {
                crate::watch::set_case(sc.to_json());
                oxmpl::verif::arm(0);
                let Ok(mut d) = crate::drv::Drv::<K>::new(&kit, &sc.params, 0.0) else { continue };
                d.log.borrow_mut().budget = 600_000;
                let Ok(inst) = d.install(&sc.problem, SampleMode::PlannerRng) else { continue };
                if d.setup(inst) != Res::Done { continue }
                let Ok(ev) = WorldEval::<K>::new(&kit, &sc.problem.world) else { continue };
                {
                    let mut l = d.log.borrow_mut();
                    l.tick_sample = TICK;
                    l.tick_valid = TICK;
                }
                // budgets in ticks: a few that end inside the first iterations, then generous ones
                let budgets = [30 + r.below(400) as u64, 100 + r.below(3_000) as u64, 15_000, 30_000];
                for (ci, t) in budgets.iter().enumerate() {
                    let q0 = d.log.borrow().n_valid;
                    let res = d.solve_ns(t * TICK, true);
                    {
                        let mut l = d.log.borrow_mut();
                        l.tick_sample = TICK;
                        l.tick_valid = TICK;
                    }
                    let used = d.log.borrow().n_valid - q0;
                    if matches!(res, Res::Err(ErrKind::Timeout)) && ci < 2 && used > 0 {
                        b.count("timed_calls_cut_short_by_the_clock", 1);
                    }
                    match &res {
                        Res::Path(p) => {
                            b.count("timed_paths", 1);
                            if ci >= 1 { b.count("timed_paths_after_an_interrupted_call", 1); }
                            if p.len() >= 3 { b.distinct.insert(hash_path(p)); }
                            let log = d.log.borrow();
                            let acc = Accepted::<K>::from_log(&kit, &ev.sp, &log.recs, &sc.problem.start);
                            let mut worst = 0.0f64;
                            for (sig, det) in path_coverage(&kit, &ev.sp, &ev, &acc, p, &mut worst) {
                                let mut v = sc.to_json();
                                v["property"] = json!("C03");
                                v["kind"] = json!("timed");
                                v["budgets_in_ticks"] = json!(budgets);
                                ctx.violate(&format!("{sig}:{}:clock-runs-out-mid-iteration", sc.params.kind.name()), format!("{det} [solve budgets {budgets:?} ticks, 1 tick per validity query and sampler call; path from call {ci}]"), v);
                            }
                            b.max("worst_gap_over_lvs(timed)", worst);
                            break;
                        }
                        Res::Panic { .. } | Res::Budget => break,
                        _ => {}
                    }
                }
            });
            i += shards;
        }
        ctx.merge(b);
    });
}

/// C02 in two corners. (a) Very deep trees: thousands of nodes on the solution branch (step =
/// extent / 4500..9000, every sample the goal), so that the path has thousands of states - it must
/// still begin at the start. (b) Goal regions that overhang the sampling box: the centre lies
/// outside the bounds, goal samples sit on the rim; the last state must still satisfy the goal.
/// C02, "bit for bit": the same planner object is set up a second time with a problem definition
/// that shares the space and goal objects *and the validity-checker object* of the first and whose
/// start is a different representation of the same point (-0.0 for 0.0 in one coordinate): the
/// returned path must begin with the start of the second definition, bit for bit.
fn c02_twin_resetup(ctx: &Ctx, tier: Tier, seed: u64) {
    use crate::monitor::SampleMode;
    use crate::world::{gen_params, gen_problem, gen_spec, ALL_PLANNERS};
    let n = tier.pick(160usize, 4_000);
    par_shards(n, crate::util::n_threads(), |i| {
        let mut r = Sm::derive(seed, &[2020, i as u64]);
        let kind = ALL_PLANNERS[i % 4];
        let wrap = [crate::spec::Wrap::R, crate::spec::Wrap::Se2, crate::spec::Wrap::Compound, crate::spec::Wrap::Se3][(i / 4) % 4];
        let spec = gen_spec(&mut r, wrap, &GenOpts { nonconvex: false, fracs: false, odd_weights: false, max_dim: 3 });
        let Some(ci) = spec.comps.iter().position(|c| matches!(&c.kind, crate::spec::CK::R { bounds: Some(b), .. } if b[0].0 < 0.0 && b[0].1 > 0.0)) else { return };
        let mut p1 = gen_problem(&mut r, &spec, Hostility::Free);
        let o = spec.offsets()[ci];
        p1.start[o] = 0.0;
        if kind == PKind::Prm {
            p1.goal.radius *= 2.5;
        }
        let mut p2 = p1.clone();
        p2.start[o] = -0.0;
        let params = gen_params(&mut r, &spec, kind, false);
        let mut b = Batch::default();
        with_kit!(spec, K, kit => {
            oxmpl::verif::arm(0);
            let Ok(mut d) = crate::drv::Drv::<K>::new(&kit, &params, 0.0395) else { return };
            d.log.borrow_mut().keep_events = false;
            let Ok(inst1) = d.install(&p1, SampleMode::PlannerRng) else { return };
            if d.setup(inst1.clone()) != Res::Done { return; }
            if kind == PKind::Prm { let _ = d.construct_roadmap(true); }
            let _ = d.solve_iters(400);
            let pd2 = std::sync::Arc::new(oxmpl::base::problem_definition::ProblemDefinition { space: inst1.pd.space.clone(), start_states: vec![kit.unflat(&p2.start)], goal: inst1.pd.goal.clone() });
            let inst2 = crate::drv::Installed { problem: p2.clone(), pd: pd2, checker: inst1.checker.clone() };
            if d.setup(inst2) != Res::Done { return; }
            if kind == PKind::Prm { let _ = d.construct_roadmap(true); }
            let res = d.solve_iters(600);
            b.evaluations += 1;
            b.count("twin_resetups", 1);
            if let Res::Path(p) = &res {
                b.count("twin_resetup_paths", 1);
                let Ok(sp) = kit.build() else { return };
                for (sig, det) in path_endpoints(&kit, &sp, &p2, p) {
                    ctx.violate(&format!("{sig}:{}:twin-start-after-re-setup", kind.name()), det, json!({"kind":"twin-resetup","problem":p2.to_json(),"params":params.to_json(),"first_start":fjs(&p1.start)}));
                }
            }
        });
        ctx.merge(b);
    });
    ctx.require("twin_resetup_paths");
}

fn c02_special(ctx: &Ctx, tier: Tier, seed: u64) {
    use super::hist::{run_history, History, Op};
    use crate::spec::{Comp, Spec, Wrap, CK};
    use crate::world::{GoalMode, GoalSpec, PParams, Problem, World};
    let n_deep = tier.pick(2, 16);
    let n_over = tier.pick(600, 30_000);
    let shards = 64;
    par_shards(shards, crate::util::n_threads(), |sh| {
        let mut b = Batch::default();
        let mut i = sh;
        while i < n_deep + n_over {
            let mut r = Sm::derive(seed, &[222, i as u64]);
            if i < n_deep {
                let kind = [PKind::Rrt, PKind::Star][i % 2];
                let dim = 1 + (i / 2) % 2;
                let ext = *r.pick(&[1.0, 100.0, 1e4]);
                let spec = Spec::plain(Wrap::R, CK::R { n: dim, bounds: Some(vec![(0.0, ext); dim]) }, None);
                let depth = 4_500 + r.below(4_500) as u64;
                let step = ext / depth as f64;
                let start = vec![0.0; dim];
                let mut centre = vec![0.0; dim];
                centre[0] = ext;
                let goal = GoalSpec { centre, radius: step * 0.75, mode: GoalMode::Centre, fail_at: None, window: None };
                let problem = Problem { spec: spec.clone(), world: World::default(), start, extra_starts: vec![], goal, infeasible: None, tags: vec!["deep-tree".into()] };
                let params = PParams { kind, max_distance: step, goal_bias: 1.0, search_radius: step * *r.pick(&[0.5, 1.5]), connection_radius: step, seed: Some(r.next_u64()) };
                let h = History { problems: vec![problem], params, prm_samples: 0, ops: vec![Op::Setup(0), Op::Solve(depth + 50)], uniform_fail_at: None, starts_override: None, script: None, prm_build_override: None };
                b.evaluations += 1;
                with_kit!(spec, K, kit => {
                    if let Ok((_, recs)) = run_history::<K>(&kit, &h, false, 50_000_000) {
                        if let (Some(Res::Path(p)), Ok(sp)) = (recs.last().map(|c| &c.res), kit.build()) {
                            b.count("deep_tree_paths", 1);
                            b.max("deepest_path_states", p.len() as f64);
                            b.distinct.insert(hash_path(p));
                            for (sig, det) in path_endpoints(&kit, &sp, &h.problems[0], p) {
                                let mut v = h.to_json();
                                v["property"] = json!("C02");
                                ctx.violate(&format!("{sig}:{}:deep-tree", kind.name()), format!("{det} [path of {} states; tree depth {depth}]", p.len()), v);
                            }
                        } else {
                            b.count("deep_tree_runs_without_path", 1);
                        }
                    }
                });
            } else {
                let cfg = cfg_for(&mut r, i, &[Hostility::Free, Hostility::Free, Hostility::Plain], 0.0, &GenOpts::default(), 600, 0.0);
                let mut sc = make_scenario(&mut r, &cfg);
                let spec = sc.problem.spec.clone();
                let offs = spec.offsets();
                // a bounded real-vector component with at least two coordinates
                let cands: Vec<usize> = (0..spec.comps.len()).filter(|c| matches!(&spec.comps[*c].kind, CK::R { n, bounds: Some(bs) } if *n >= 2 && bs.iter().all(|(l, h)| l.is_finite() && h.is_finite() && h > l)) && spec.eff_weight(*c) > 1e-6).collect();
                if !cands.is_empty() {
                    let ci = *r.pick(&cands);
                    let (Comp { kind: CK::R { n, bounds: Some(bs) }, .. }, w) = (&spec.comps[ci], spec.eff_weight(ci)) else { unreachable!() };
                    let j = r.below(*n);
                    let k = (j + 1 + r.below(*n - 1)) % *n;
                    let rad = sc.problem.goal.radius / w;
                    let mut c = sc.problem.goal.centre.clone();
                    let up = r.bool(0.5);
                    c[offs[ci] + j] = if up { bs[j].1 + rad * r.range(0.5, 0.9) } else { bs[j].0 - rad * r.range(0.5, 0.9) };
                    c[offs[ci] + k] = 0.5 * (bs[k].0 + bs[k].1);
                    let rim = |s: f64| {
                        let mut g = c.clone();
                        g[offs[ci] + k] += s * 0.93 * rad;
                        g
                    };
                    sc.problem.goal.centre = c.clone();
                    sc.problem.goal.mode = GoalMode::List(vec![rim(1.0), rim(-1.0), c.clone(), rim(0.6)]);
                    sc.problem.tags.push("goal-overhangs-the-box".into());
                    if sc.params.kind != PKind::Prm {
                        sc.params.goal_bias = *r.pick(&[0.05, 0.3, 0.5]);
                    }
                    b.evaluations += 1;
                    with_kit!(spec, K, kit => {
                        if let Ok((_, Res::Path(p))) = exec::<K>(&kit, &sc) {
                            if let Ok(sp) = kit.build() {
                                b.count("overhanging_goal_paths", 1);
                                b.count(&format!("overhanging_goal_paths[{}]", sc.params.kind.name()), 1);
                                if p.len() >= 3 { b.distinct.insert(hash_path(&p)); }
                                for (sig, det) in path_endpoints(&kit, &sp, &sc.problem, &p) {
                                    let mut v = sc.to_json();
                                    v["property"] = json!("C02");
                                    ctx.violate(&format!("{sig}:{}:goal-overhangs-the-box", sc.params.kind.name()), det, v);
                                }
                            }
                        }
                    });
                }
            }
            i += shards;
        }
        ctx.merge(b);
    });
}

/// C05 on very deep trees: every sample is the goal, every node the child of the previous one
/// (quick: ~5 000 nodes for RRT and RRT*; thorough: also one RRT tree of 70 000 nodes - more
/// than a 16-bit index can address). Every step of the returned path must still be one step.
fn c05_deep(ctx: &Ctx, tier: Tier, seed: u64) {
    use super::hist::{run_history, History, Op};
    use crate::spec::{Spec, Wrap, CK};
    use crate::world::{GoalMode, GoalSpec, PParams, Problem, World};
    let mut jobs: Vec<(PKind, u64)> = vec![(PKind::Rrt, 5_000), (PKind::Star, 4_700)];
    if tier == Tier::Thorough {
        jobs.push((PKind::Rrt, 70_000));
        jobs.push((PKind::Star, 9_000));
    }
    par_shards(jobs.len(), crate::util::n_threads(), |i| {
        let (kind, depth) = jobs[i];
        let mut r = Sm::derive(seed, &[555, i as u64]);
        let mut b = Batch::default();
        let ext = *r.pick(&[1.0, 100.0]);
        let spec = Spec::plain(Wrap::R, CK::R { n: 1, bounds: Some(vec![(0.0, ext)]) }, None);
        let step = ext / depth as f64;
        let goal = GoalSpec { centre: vec![ext], radius: step * 0.75, mode: GoalMode::Centre, fail_at: None, window: None };
        let problem = Problem { spec: spec.clone(), world: World::default(), start: vec![0.0], extra_starts: vec![], goal, infeasible: None, tags: vec!["deep-tree".into()] };
        let params = PParams { kind, max_distance: step, goal_bias: 1.0, search_radius: step * 0.5, connection_radius: step, seed: Some(r.next_u64()) };
        let h = History { problems: vec![problem], params: params.clone(), prm_samples: 0, ops: vec![Op::Setup(0), Op::Solve(depth + 50)], uniform_fail_at: None, starts_override: None, script: None, prm_build_override: None };
        b.evaluations += 1;
        with_kit!(spec, K, kit => {
            if let Ok((_, recs)) = run_history::<K>(&kit, &h, false, 500_000_000) {
                if let (Some(Res::Path(p)), Ok(sp)) = (recs.last().map(|c| &c.res), kit.build()) {
                    b.count("deep_tree_paths", 1);
                    b.max("deepest_path_states", p.len() as f64);
                    b.distinct.insert(hash_path(p));
                    let (f, worst) = path_steps(&kit, &sp, &params, p);
                    b.max("worst_step_minus_limit(deep)", worst);
                    for (sig, det) in f {
                        let mut v = h.to_json();
                        v["property"] = json!("C05");
                        ctx.violate(&format!("{sig}:{}:deep-tree", kind.name()), format!("{det} [path of {} states; tree depth {depth}]", p.len()), v);
                    }
                }
            }
        });
        ctx.merge(b);
    });
}

/// C05 over call histories in which the user changes the planner's public step / radius fields
/// between calls: after a new setup every edge must respect the *current* step; without a new
/// setup, edges created earlier may be as long as the largest step configured since the setup.
fn c05_histories(ctx: &Ctx, tier: Tier, seed: u64) {
    use super::hist::{run_history, Op};
    let n = tier.pick(3_000, 100_000);
    let shards = 64;
    par_shards(shards, crate::util::n_threads(), |sh| {
        let mut b = Batch::default();
        let mut i = sh;
        while i < n {
            let mut r = Sm::derive(seed, &[505, i as u64]);
            let mut h = super::c08::base_history(&mut r, i);
            let spec = h.problems[0].spec.clone();
            for k in 0..2 {
                let host = *r.pick(&[Hostility::Free, Hostility::Plain]);
                h.problems[k] = crate::world::gen_problem(&mut r, &spec, host);
                if h.params.kind == PKind::Prm {
                    h.problems[k].goal.radius *= 2.5;
                }
            }
            let f = *r.pick(&[0.1, 0.25, 0.5, 2.0, 4.0]);
            let n_it = 20 + r.below(300) as u64;
            h.ops = if h.params.kind == PKind::Prm {
                match r.below(2) {
                    0 => vec![Op::Setup(0), Op::Construct, Op::Solve(10), Op::ScaleParams(f), Op::Setup(0), Op::Construct, Op::Solve(10)],
                    _ => vec![Op::Setup(0), Op::Construct, Op::Solve(10), Op::ScaleParams(f), Op::SetPd(1), Op::Solve(10)],
                }
            } else {
                match r.below(3) {
                    0 => vec![Op::Setup(0), Op::Solve(n_it), Op::ScaleParams(f), Op::Setup(0), Op::Solve(n_it)],
                    1 => vec![Op::Setup(0), Op::Solve(n_it), Op::ScaleParams(f), Op::Setup(1), Op::Solve(n_it)],
                    _ => vec![Op::Setup(0), Op::Solve(5), Op::ScaleParams(f), Op::Solve(n_it), Op::Solve(n_it)],
                }
            };
            b.evaluations += 1;
            with_kit!(spec, K, kit => {
                if let Ok((_, recs)) = run_history::<K>(&kit, &h, false, 3_000_000) {
                    let Ok(sp) = kit.build() else { continue };
                    let mut changed = false;
                    for c in &recs {
                        if matches!(c.op, Op::ScaleParams(_)) {
                            changed = true;
                        }
                        if let Res::Path(p) = &c.res {
                            b.count("history_paths", 1);
                            if changed {
                                b.count("history_paths_after_step_change", 1);
                            }
                            if p.len() >= 3 {
                                b.distinct.insert(hash_path(p));
                            }
                            let mut pp = h.params.clone();
                            // path_steps reads the limit from the params: give it the applicable one
                            pp.max_distance = c.step_limit_since_setup;
                            pp.search_radius = c.step_limit_since_setup;
                            pp.connection_radius = c.step_limit_since_setup;
                            let (f, worst) = path_steps(&kit, &sp, &pp, p);
                            b.max("worst_step_minus_limit(history)", worst);
                            for (sig, det) in f {
                                let mut v = h.to_json();
                                v["property"] = json!("C05");
                                ctx.violate(&format!("{sig}:{}:after-parameter-change", h.params.kind.name()), format!("{det} [history: {}]", h.describe()), v);
                            }
                        }
                    }
                }
            });
            i += shards;
        }
        ctx.merge(b);
    });
}

/// C03 over call histories: paths returned by a second or third `solve` re-use edges created
/// by earlier calls, and a new setup with another checker must not leave edges validated by
/// the old one; coverage is judged on the log since the last setup, validity by the checker
/// installed then.
fn c03_histories(ctx: &Ctx, tier: Tier, seed: u64) {
    use super::hist::{run_history, Op};
    let n = tier.pick(1_500, 60_000);
    let shards = 64;
    par_shards(shards, crate::util::n_threads(), |sh| {
        let mut b = Batch::default();
        let mut i = sh;
        while i < n {
            let mut r = Sm::derive(seed, &[303, i as u64]);
            let mut h = super::c08::base_history(&mut r, i);
            let spec = h.problems[0].spec.clone();
            for k in 0..2 {
                let host = *r.pick(&[Hostility::Plain, Hostility::Plain, Hostility::Free]);
                h.problems[k] = crate::world::gen_problem(&mut r, &spec, host);
                if h.params.kind == PKind::Prm {
                    h.problems[k].goal.radius *= 2.5;
                }
            }
            // keep the logs small enough to index
            let lvs = crate::refm::ref_lvs(&spec).max(1e-12);
            let per_motion = (h.params.step_limit().min(spec.diameter()) / (0.1 * lvs)).ceil().max(1.0);
            if per_motion > 300.0 {
                let k = 300.0 / per_motion;
                h.params.max_distance *= k;
                h.params.search_radius *= k;
                h.params.connection_radius *= k;
            }
            let n_it = 10 + r.below(150) as u64;
            h.prm_samples = h.prm_samples.min(40);
            h.ops = if h.params.kind == PKind::Prm {
                match r.below(2) {
                    0 => vec![Op::Setup(0), Op::Construct, Op::Solve(10), Op::SetPd(1), Op::Solve(10), Op::SetPd(0), Op::Solve(10)],
                    _ => vec![Op::Setup(0), Op::Construct, Op::Solve(10), Op::SetupMixed(0, 1), Op::Construct, Op::Solve(10)],
                }
            } else {
                match r.below(2) {
                    0 => vec![Op::Setup(0), Op::Solve(n_it), Op::Solve(n_it), Op::Solve(n_it)],
                    _ => vec![Op::Setup(0), Op::Solve(n_it), Op::SetupMixed(0, 1), Op::Solve(n_it), Op::Solve(n_it)],
                }
            };
            b.evaluations += 1;
            with_kit!(spec, K, kit => {
                if let Ok((d, recs)) = run_history::<K>(&kit, &h, true, 600_000) {
                    let evals: Vec<Option<WorldEval<K>>> = h.problems.iter().map(|p| WorldEval::<K>::new(&kit, &p.world).ok()).collect();
                    let log = d.log.borrow();
                    let mut solves_since_setup = 0;
                    for c in &recs {
                        if matches!(c.op, Op::Setup(_) | Op::SetupMixed(..)) {
                            solves_since_setup = 0;
                        }
                        if matches!(c.op, Op::Solve(_)) {
                            solves_since_setup += 1;
                        }
                        if let (Res::Path(p), Some(ki), Some(pi)) = (&c.res, c.checker, c.pd) {
                            let Some(ev) = &evals[ki] else { continue };
                            b.count("history_paths", 1);
                            if solves_since_setup >= 2 {
                                b.count("history_paths_from_later_solves", 1);
                            }
                            if p.len() >= 3 {
                                b.distinct.insert(hash_path(p));
                            }
                            let acc = Accepted::<K>::from_log(&kit, &ev.sp, &log.recs[c.log_mark_of_last_setup..], &h.problems[pi].start);
                            let mut worst = 0.0f64;
                            for (sig, det) in path_coverage(&kit, &ev.sp, ev, &acc, p, &mut worst) {
                                let mut v = h.to_json();
                                v["property"] = json!("C03");
                                ctx.violate(&format!("{sig}:{}:after-history", h.params.kind.name()), format!("{det} [history: {}]", h.describe()), v);
                            }
                            b.max("worst_gap_over_lvs(history)", worst);
                        }
                    }
                }
            });
            i += shards;
        }
        ctx.merge(b);
    });
}
