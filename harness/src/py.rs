//! C19 / C20: scenario generation for the Python driver (`pygen`) and verification of what the
//! Python side returned (`pyverify`). Floats cross the language boundary as "h:<16 hex digits>"
//! strings so that no decimal parsing can change a bit.
use crate::drv::{ErrKind, Res};
use crate::monitor::WorldEval;
use crate::oracle::{dense_invalid_run, path_endpoints, path_validity};
use crate::props::c12::{angle_values, bound_values};
use crate::props::plan::{cfg_for, exec, make_scenario, Scenario};
use crate::spec::{Kit, Spec, Wrap, CK};
use crate::util::{Batch, Ctx, Sm, Tier};
use crate::with_kit;
use crate::world::{GenOpts, GoalMode, Hostility, PKind, Prim, ALL_PLANNERS};
use oxmpl::base::space::{RealVectorStateSpace, SE2StateSpace, SE3StateSpace, SO2StateSpace, SO3StateSpace, StateSpace};
use oxmpl::base::state::{RealVectorState, SE2State, SO2State, SO3State};
use serde_json::{json, Value};

pub fn hexify(v: &Value) -> Value {
    match v {
        Value::Number(n) if n.is_f64() => Value::String(format!("h:{:016x}", n.as_f64().unwrap().to_bits())),
        Value::String(s) if s == "NaN" => Value::String(format!("h:{:016x}", f64::NAN.to_bits())),
        Value::String(s) if s == "inf" => Value::String(format!("h:{:016x}", f64::INFINITY.to_bits())),
        Value::String(s) if s == "-inf" => Value::String(format!("h:{:016x}", f64::NEG_INFINITY.to_bits())),
        Value::Array(a) => Value::Array(a.iter().map(hexify).collect()),
        Value::Object(o) => Value::Object(o.iter().map(|(k, x)| (k.clone(), hexify(x))).collect()),
        o => o.clone(),
    }
}
pub fn unhex(v: &Value) -> Value {
    match v {
        Value::String(s) if s.starts_with("h:") => {
            let f = f64::from_bits(u64::from_str_radix(&s[2..], 16).unwrap_or(0));
            crate::util::fj(f)
        }
        Value::Array(a) => Value::Array(a.iter().map(unhex).collect()),
        Value::Object(o) => Value::Object(o.iter().map(|(k, x)| (k.clone(), unhex(x))).collect()),
        o => o.clone(),
    }
}

/// SO2 angles pass through `SO2State::new` on the Python side; make them fixpoints of it.
fn canon_for_python(spec: &Spec, v: &mut [f64]) -> bool {
    let mut o = 0;
    for c in &spec.comps {
        if let CK::So2 { .. } = c.kind {
            let mut x = v[o];
            let mut ok = false;
            for _ in 0..6 {
                let y = SO2State::new(x).value;
                if y.to_bits() == x.to_bits() {
                    ok = true;
                    break;
                }
                x = y;
            }
            if !ok {
                return false;
            }
            v[o] = x;
        }
        o += c.kind.width();
    }
    true
}

/// Restrict a scenario to what the Python API can express; returns false if impossible.
fn pythonise(sc: &mut Scenario) -> bool {
    let spec = &mut sc.problem.spec;
    match spec.wrap {
        Wrap::Se2 => {
            for c in spec.comps.iter_mut() {
                c.frac = None;
            }
            spec.comps[0].weight = 1.0;
            if !matches!((&spec.comps[0].kind, &spec.comps[1].kind), (CK::R { bounds: Some(_), .. }, CK::So2 { bounds: Some(_) })) {
                return false;
            }
        }
        Wrap::Se3 => {
            for c in spec.comps.iter_mut() {
                c.frac = None;
            }
            spec.comps[0].weight = 1.0;
            spec.comps[1].kind = CK::So3 { bounds: None };
            if !matches!(&spec.comps[0].kind, CK::R { bounds: Some(_), .. }) {
                return false;
            }
        }
        _ => {}
    }
    let spec = sc.problem.spec.clone();
    // goal samplers on the Python side cannot use the planner's generator
    if matches!(sc.problem.goal.mode, GoalMode::Rng) {
        sc.problem.goal.mode = GoalMode::Centre;
    }
    let mut ok = canon_for_python(&spec, &mut sc.problem.start) && canon_for_python(&spec, &mut sc.problem.goal.centre);
    if let GoalMode::List(l) = &mut sc.problem.goal.mode {
        for s in l.iter_mut() {
            ok &= canon_for_python(&spec, s);
        }
    }
    for p in sc.problem.world.prims.iter_mut() {
        if let Prim::Shell { centre, .. } = p {
            ok &= canon_for_python(&spec, centre);
        }
    }
    sc.script = None;
    ok
}

fn res_json(r: &Res) -> Value {
    match r {
        Res::Path(p) => json!({"outcome":"path","path":p.iter().map(|s| crate::util::fjs(s)).collect::<Vec<_>>()}),
        Res::Err(e) => json!({"outcome":"error","kind":format!("{e:?}")}),
        o => json!({"outcome":"other","what":o.short()}),
    }
}

fn scenario_entry(id: usize, prop: &str, sc: &Scenario, build_secs: f64, timeout_secs: f64, expected: Value, fault: Value, group: Value) -> Value {
    let mut planner = sc.params.to_json();
    planner["prm_build_secs"] = json!(build_secs);
    json!({"id":id,"prop":prop,"group":group,"spec":sc.problem.spec.to_json(),"world":sc.problem.world.to_json(),
           "start":crate::util::fjs(&sc.problem.start),"goal":sc.problem.goal.to_json(),"planner":planner,
           "timeout_secs":timeout_secs,"fault":fault,"expected":expected,"describe":sc.describe()})
}

/// Constructor / wrapper probes over the C12 lattice, with the core's answers.
fn wrapper_probes(r: &mut Sm) -> Vec<Value> {
    let mut out = vec![];
    let vals = bound_values();
    let fj = crate::util::fj;
    for a in &vals {
        for b in &vals {
            let core = RealVectorStateSpace::new(1, Some(vec![(*a, *b)]));
            let mut e = json!({"ctor":"RealVectorStateSpace","dimension":1,"bounds":[[fj(*a),fj(*b)]],"expect":if core.is_ok() {"ok"} else {"ValueError"}});
            if let Ok(sp) = &core {
                let (x, y) = (r.range(-3.0, 3.0), r.range(-3.0, 3.0));
                e["probes"] = json!([{"op":"distance","a":[fj(x)],"b":[fj(y)],"expect":fj(sp.distance(&RealVectorState::new(vec![x]), &RealVectorState::new(vec![y])))},
                                     {"op":"extent","expect":fj(sp.get_maximum_extent())}]);
            }
            out.push(e);
            let core = SO2StateSpace::new(Some((*a, *b)));
            let mut e = json!({"ctor":"SO2StateSpace","bounds":[fj(*a),fj(*b)],"expect":if core.is_ok() {"ok"} else {"ValueError"}});
            if let Ok(sp) = &core {
                let (x, y) = (r.range(-3.0, 3.0), r.range(-3.0, 3.0));
                e["probes"] = json!([{"op":"distance","a":[fj(x)],"b":[fj(y)],"expect":fj(sp.distance(&SO2State::new(x), &SO2State::new(y)))},
                                     {"op":"extent","expect":fj(sp.get_maximum_extent())}]);
            }
            out.push(e);
            // SE2 with this pair as the yaw bound, SE3 with it as the z bound
            let b3 = vec![(-1.0, 1.0), (-2.0, 2.0), (*a, *b)];
            let core = SE2StateSpace::new(0.5, Some(b3.clone()));
            let mut e = json!({"ctor":"SE2StateSpace","weight":0.5,"bounds":b3.iter().map(|p| json!([fj(p.0),fj(p.1)])).collect::<Vec<_>>(),"expect":if core.is_ok() {"ok"} else {"ValueError"}});
            if let Ok(sp) = &core {
                let (s1, s2) = (SE2State::new(0.1, 0.2, 0.3), SE2State::new(-0.5, 1.0, 2.5));
                e["probes"] = json!([{"op":"distance","a":[0.1,0.2,0.3],"b":[-0.5,1.0,2.5],"expect":fj(sp.distance(&s1, &s2))}]);
            }
            out.push(e);
            let core = SE3StateSpace::new(0.5, Some(b3.clone()));
            out.push(json!({"ctor":"SE3StateSpace","weight":0.5,"bounds":b3.iter().map(|p| json!([fj(p.0),fj(p.1)])).collect::<Vec<_>>(),"expect":if core.is_ok() {"ok"} else {"ValueError"}}));
        }
        // SO3 cone radius
        let q = r.quat();
        let core = SO3StateSpace::new(Some((SO3State::new(q[0], q[1], q[2], q[3]), *a)));
        let mut e = json!({"ctor":"SO3StateSpace","centre":crate::util::fjs(&q),"radius":fj(*a),"expect":if core.is_ok() {"ok"} else {"ValueError"}});
        if let Ok(sp) = &core {
            let (x, y) = (r.quat(), r.quat());
            e["probes"] = json!([{"op":"distance","a":crate::util::fjs(&x),"b":crate::util::fjs(&y),"expect":fj(sp.distance(&SO3State::new(x[0],x[1],x[2],x[3]), &SO3State::new(y[0],y[1],y[2],y[3])))},
                                 {"op":"extent","expect":fj(sp.get_maximum_extent())}]);
        }
        out.push(e);
    }
    for (dim, len) in [(2usize, 1usize), (1, 2), (0, 0), (3, 3)] {
        let core = RealVectorStateSpace::new(dim, Some(vec![(0.0, 1.0); len]));
        out.push(json!({"ctor":"RealVectorStateSpace","dimension":dim,"bounds":vec![json!([0.0,1.0]); len],"expect":if core.is_ok() {"ok"} else {"ValueError"}}));
    }
    for n in [0usize, 1, 2, 4] {
        out.push(json!({"ctor":"SE2StateSpace","weight":1.0,"bounds":vec![json!([-1.0,1.0]); n],"expect":"ValueError"}));
        out.push(json!({"ctor":"SE3StateSpace","weight":1.0,"bounds":vec![json!([-1.0,1.0]); n],"expect":"ValueError"}));
    }
    out.push(json!({"ctor":"CompoundStateSpace","n_subspaces":2,"weights":[1.0],"expect":"ValueError"}));
    out.push(json!({"ctor":"CompoundStateSpace","n_subspaces":1,"weights":[1.0,2.0],"expect":"ValueError"}));
    out.push(json!({"ctor":"CompoundStateSpace","n_subspaces":2,"weights":[1.0,0.5],"expect":"ok"}));
    // distances through the compound and SE3 wrappers (components: SO2 x SO2 / R^3 x SO3)
    for _ in 0..40 {
        let w = [r.range(0.0, 3.0), r.range(0.0, 3.0)];
        let (a, b) = ([r.range(-3.0, 3.0), r.range(-3.0, 3.0)], [r.range(-3.0, 3.0), r.range(-3.0, 3.0)]);
        let spec = Spec { wrap: Wrap::Compound, comps: vec![
            crate::spec::Comp { kind: CK::So2 { bounds: None }, weight: w[0], frac: None },
            crate::spec::Comp { kind: CK::So2 { bounds: None }, weight: w[1], frac: None }] };
        if let Ok(sp) = crate::spec::build_compound(&spec) {
            let mk = |v: &[f64; 2]| crate::spec::compound_state(&spec, &[SO2State::new(v[0]).value, SO2State::new(v[1]).value]);
            let d = sp.distance(&mk(&a), &mk(&b));
            out.push(json!({"ctor":"CompoundStateSpace","n_subspaces":2,"weights":[fj(w[0]),fj(w[1])],"expect":"ok",
                "probes":[{"op":"distance","a":[fj(a[0]),fj(a[1])],"b":[fj(b[0]),fj(b[1])],"expect":fj(d)}]}));
        }
        let wt = r.range(0.0, 2.0);
        let b3 = vec![(-5.0, 5.0), (-5.0, 5.0), (-5.0, 5.0)];
        if let Ok(sp) = SE3StateSpace::new(wt, Some(b3.clone())) {
            let (qa, qb) = (r.quat(), r.quat());
            let (pa, pb) = ([r.range(-5.0, 5.0), r.range(-5.0, 5.0), r.range(-5.0, 5.0)], [r.range(-5.0, 5.0), r.range(-5.0, 5.0), r.range(-5.0, 5.0)]);
            let sa = oxmpl::base::state::SE3State::new(pa[0], pa[1], pa[2], SO3State::new(qa[0], qa[1], qa[2], qa[3]));
            let sb = oxmpl::base::state::SE3State::new(pb[0], pb[1], pb[2], SO3State::new(qb[0], qb[1], qb[2], qb[3]));
            let fa: Vec<f64> = pa.iter().chain(qa.iter()).cloned().collect();
            let fb: Vec<f64> = pb.iter().chain(qb.iter()).cloned().collect();
            out.push(json!({"ctor":"SE3StateSpace","weight":fj(wt),"bounds":b3.iter().map(|p| json!([fj(p.0),fj(p.1)])).collect::<Vec<_>>(),"expect":"ok",
                "probes":[{"op":"distance","a":crate::util::fjs(&fa),"b":crate::util::fjs(&fb),"expect":fj(sp.distance(&sa, &sb))}]}));
        }
    }
    for v in angle_values() {
        out.push(json!({"ctor":"SO2State","value":fj(v),"expect_value":fj(SO2State::new(v).value)}));
        out.push(json!({"ctor":"SE2State","value":fj(v),"expect_value":fj(SE2State::new(0.5, -0.5, v).get_yaw())}));
    }
    out
}

pub fn pygen(out_path: &str, tier: Tier, seed: u64) -> i32 {
    let mut scenarios: Vec<Value> = vec![];
    let n19 = tier.pick(240usize, 2400);
    let n20 = tier.pick(192usize, 960);
    let mut id = 0usize;
    // ---------------- C19: mirrored planner runs
    let mut i = 0usize;
    while scenarios.len() < n19 && i < n19 * 6 {
        let mut r = Sm::derive(seed, &[19, i as u64]);
        let hosts = [Hostility::Free, Hostility::Plain, Hostility::Plain, Hostility::GoalOverlap, Hostility::InvalidStart];
        let cfg = cfg_for(&mut r, i, &hosts, 0.0, &GenOpts { nonconvex: false, fracs: true, odd_weights: true, max_dim: 3 }, 600, 0.0);
        i += 1;
        let mut sc = make_scenario(&mut r, &cfg);
        if cfg.host == Hostility::InvalidStart && r.bool(0.4) {
            sc.problem.put_goal_on_start();
        }
        // resolution fractions outside (0, 1]: the core stores values above 1 (and NaN) as 1;
        // the binding must do exactly the same, not ignore or reject them
        if r.bool(0.15) {
            let f = *r.pick(&[2.5, 7.0, 1.0 + 1e-9, f64::NAN]);
            for c in sc.problem.spec.comps.iter_mut() {
                c.frac = Some(f);
            }
            sc.problem.tags.push("resolution-fraction-out-of-range".into());
        }
        // a step that is a whole number of motion-check intervals: every extension is then k
        // intervals long give or take an ulp, so the number of validity queries per motion
        // (compared below) reacts to the last bits of the fraction the space really holds
        let commensurate = !sc.problem.tags.iter().any(|t| t == "resolution-fraction-out-of-range") && r.bool(0.2);
        if commensurate {
            let f = *r.pick(&[0.1, 0.3, 0.7, 0.013, 0.05]);
            for c in sc.problem.spec.comps.iter_mut() {
                c.frac = Some(f);
            }
        }
        if !pythonise(&mut sc) {
            continue;
        }
        if commensurate && sc.params.kind != PKind::Prm {
            let mut lvs = f64::NAN;
            with_kit!(sc.problem.spec, K, kit => {
                if let Ok(sp) = kit.build() {
                    lvs = oxmpl::base::space::StateSpace::get_longest_valid_segment_length(&sp);
                }
            });
            if lvs.is_finite() && lvs > 0.0 {
                let k = 1 + r.below(8);
                sc.params.max_distance = k as f64 * (lvs * 0.1);
                sc.problem.tags.push("step-commensurate-with-resolution".into());
            }
        }
        if r.bool(0.3) {
            sc.problem.goal.mode = GoalMode::List(vec![sc.problem.goal.centre.clone(), sc.problem.goal.centre.clone()]);
        } else if r.bool(0.25) {
            // a sampler that is not consistent with the goal predicate (e.g. one that samples
            // the bounding box of the region): some of its states do not satisfy the goal. The
            // core uses every sample as returned; so must the binding.
            let c = sc.problem.goal.centre.clone();
            let spec = sc.problem.spec.clone();
            let mut out1 = crate::world::rand_state(&mut r, &spec);
            let mut out2 = crate::world::rand_state(&mut r, &spec);
            if canon_for_python(&spec, &mut out1) && canon_for_python(&spec, &mut out2) {
                sc.problem.goal.mode = GoalMode::List(vec![out1, c.clone(), out2, c]);
                sc.problem.tags.push("goal-sampler-leaves-the-goal".into());
            }
        }
        // a valid start that already lies in the goal, with a sampler that returns exactly the
        // start: the core's answer has a repeated state ([start, start] - a zero-length edge);
        // the binding must hand over the same list, not a tidied one
        if matches!(cfg.host, Hostility::Free | Hostility::Plain) && r.bool(0.1) {
            sc.problem.put_goal_on_start();
            sc.problem.goal.mode = GoalMode::List(vec![sc.problem.start.clone(), sc.problem.start.clone()]);
            sc.params.goal_bias = *r.pick(&[1.0, 0.5]);
        }
        sc.iters = 3000;
        sc.prm_samples = 60;
        let is_prm = sc.params.kind == PKind::Prm;
        let expected = if is_prm {
            Value::Null
        } else {
            let mut e = Value::Null;
            with_kit!(sc.problem.spec, K, kit => {
                if let Ok((d, res)) = exec::<K>(&kit, &sc) {
                    match &res {
                        Res::Path(_) | Res::Err(ErrKind::InvalidStartState) | Res::Err(ErrKind::NoSolutionFound) => {
                            e = res_json(&res);
                            // the number of validity queries is part of the observable behaviour:
                            // it changes when a parameter or a space setting is lost on the way
                            e["validity_calls"] = json!(d.log.borrow().n_valid);
                            // ... and so is the number of goal samples drawn from the user's sampler
                            e["goal_sample_calls"] = json!(d.log.borrow().n_goal_sample);
                        }
                        _ => {}
                    }
                }
            });
            if e.is_null() {
                continue;
            }
            e
        };
        scenarios.push(scenario_entry(id, "C19", &sc, 0.05, 10.0, expected, Value::Null, Value::Null));
        id += 1;
    }
    // ---------------- C20: fault injection groups
    let mut g = 0usize;
    let mut i = 0usize;
    while g < n20 && i < n20 * 8 {
        let mut r = Sm::derive(seed, &[20, i as u64]);
        let cfg = cfg_for(&mut r, i, &[Hostility::Free, Hostility::Plain], 0.0, &GenOpts { nonconvex: false, fracs: false, odd_weights: false, max_dim: 3 }, 600, 0.0);
        i += 1;
        let mut sc = make_scenario(&mut r, &cfg);
        if !pythonise(&mut sc) {
            continue;
        }
        sc.iters = 3000;
        sc.prm_samples = 60;
        let spec = sc.problem.spec.clone();
        // fault region: a ball somewhere between start and goal (never containing the start)
        let diam = spec.diameter();
        // mostly on the straight route from the start to the goal, so that it matters
        let mut centre = crate::world::rand_state(&mut r, &spec);
        if r.bool(0.75) {
            let t = r.range(0.3, 0.7);
            with_kit!(spec, K, kit => {
                if let Ok(sp) = kit.build() {
                    let (a, b) = (kit.unflat(&sc.problem.start), kit.unflat(&sc.problem.goal.centre));
                    let mut out = a.clone();
                    sp.interpolate(&a, &b, t, &mut out);
                    centre = K::flat(&out);
                }
            });
        }
        if !canon_for_python(&spec, &mut centre) {
            continue;
        }
        let sg = crate::refm::ref_distance(&spec, &sc.problem.start, &sc.problem.goal.centre);
        let rad = (r.range(0.05, 0.25) * diam).min(0.3 * sg);
        if crate::refm::ref_distance(&spec, &centre, &sc.problem.start) < rad + 0.02 * diam {
            continue;
        }
        let target = if r.bool(0.7) { "validity" } else { "goal" };
        // a goal fault must be able to hit states that satisfy the goal: the inner part of the
        // goal disc raises / misbehaves, its rim still answers
        let (centre, rad) = if target == "goal" { (sc.problem.goal.centre.clone(), sc.problem.goal.radius * r.range(0.5, 0.9)) } else { (centre, rad) };
        let region = Prim::Shell { centre, r_in: 0.0, r_out: rad };
        let region_json = crate::world::World { prims: vec![region.clone()] }.to_json()[0].clone();
        // "window": calls k .. k+len all misbehave - a long uninterrupted streak (130-400 calls)
        // after which the callback works again; nothing may be remembered about the streak
        let when = if target == "validity" && r.bool(0.15) { "window" } else if r.bool(0.6) { "region" } else { "kth" };
        let k = if when == "window" { 1 + r.below(6) as u64 } else { r.below(10) as u64 };
        let streak = 130 + r.below(270) as u64;
        // core expectation for region faults on the validity callback: the world with F added
        let mut core_expected = Value::Null;
        if target == "validity" && when == "region" && sc.params.kind != PKind::Prm {
            let mut sc2 = sc.clone();
            sc2.problem.world.prims.push(region.clone());
            with_kit!(spec, K, kit => {
                if let Ok((_, res)) = exec::<K>(&kit, &sc2) {
                    if matches!(res, Res::Path(_)) { core_expected = res_json(&res); }
                }
            });
        }
        let kinds: &[&str] = if target == "validity" {
            &["false", "raise", "raise-interrupted", "raise-keyboard", "raise-stopiteration", "raise-memory", "raise-badstr", "none", "str", "int", "list", "float", "tuple", "truthy", "array0d"]
        } else {
            &["false", "raise", "raise-keyboard", "raise-generatorexit", "raise-interrupted", "raise-badstr", "none", "str", "tuple", "truthy", "array0d"]
        };
        let timeout = if sc.params.kind == PKind::Prm { 2.0 } else { 1.5 };
        for kind in kinds {
            let fault = json!({"target":target,"when":when,"kind":kind,"region":region_json,"k":k,"len":streak});
            let exp = if *kind == "false" { core_expected.clone() } else { Value::Null };
            scenarios.push(scenario_entry(id, "C20", &sc, 0.05, timeout, exp, fault, json!(g)));
            id += 1;
        }
        g += 1;
    }
    let mut r = Sm::derive(seed, &[1919]);
    let doc = json!({"seed":seed,"tier":tier.name(),"scenarios":scenarios,"wrappers":wrapper_probes(&mut r)});
    match std::fs::write(out_path, serde_json::to_string(&hexify(&doc)).unwrap()) {
        Ok(()) => {
            crate::util::say(&format!("pygen: {} scenarios ({} C20 groups), {} wrapper probes -> {out_path}", id, g, doc["wrappers"].as_array().map(|a| a.len()).unwrap_or(0)));
            0
        }
        Err(e) => {
            crate::util::say(&format!("INCONCLUSIVE pygen cannot write {out_path}: {e}"));
            2
        }
    }
}

fn py_outcome(v: &Value) -> (String, Option<Vec<Vec<f64>>>, String) {
    // (class, path, message)
    let outcome = v["outcome"].as_str().unwrap_or("missing").to_string();
    if outcome == "path" {
        let p = v["path"].as_array().map(|a| a.iter().map(crate::util::parse_fs).collect()).unwrap_or_default();
        ("path".into(), Some(p), String::new())
    } else {
        let msg = v["message"].as_str().unwrap_or("").to_string();
        let kind = if msg.contains("within timeout") {
            "Timeout"
        } else if msg.contains("No solution found") {
            "NoSolutionFound"
        } else if msg.contains("Start state is not valid") {
            "InvalidStartState"
        } else if msg.contains("not sampled") {
            "UnsampledStateSpace"
        } else if msg.contains("uninitialised") {
            "PlannerUninitialised"
        } else {
            "other"
        };
        (kind.into(), None, msg)
    }
}

fn same_path(a: &[Vec<f64>], b: &[Vec<f64>]) -> bool {
    a.len() == b.len() && a.iter().zip(b).all(|(x, y)| x.len() == y.len() && x.iter().zip(y).all(|(p, q)| p.to_bits() == q.to_bits()))
}

pub fn pyverify(prop: &str, scen_path: &str, res_path: &str, tier: Tier, seed: u64) -> i32 {
    let level = if prop == "C20" { "fault_enumeration" } else { "exploration" };
    let ctx = Ctx::new(prop, tier, seed, level);
    let load = |p: &str| -> Option<Value> { std::fs::read_to_string(p).ok().and_then(|t| serde_json::from_str::<Value>(&t).ok()).map(|v| unhex(&v)) };
    let (Some(scen), Some(resd)) = (load(scen_path), load(res_path)) else {
        ctx.inconclusive(format!("cannot read {scen_path} / {res_path} (did the Python driver run?)"));
        return ctx.finish("python pipeline did not produce results", &[], json!({}));
    };
    if let Some(err) = resd["fatal"].as_str() {
        ctx.inconclusive(format!("python driver failed: {err}"));
        return ctx.finish("python driver failed", &[], json!({}));
    }
    let results: std::collections::HashMap<u64, Value> = resd["results"].as_array().cloned().unwrap_or_default().into_iter().filter_map(|r| r["id"].as_u64().map(|i| (i, r))).collect();
    let mut b = Batch::default();
    let scenarios = scen["scenarios"].as_array().cloned().unwrap_or_default();
    let mut groups: std::collections::BTreeMap<u64, Vec<(Value, Value)>> = std::collections::BTreeMap::new();
    for s in &scenarios {
        if s["prop"].as_str() != Some(prop) {
            continue;
        }
        let id = s["id"].as_u64().unwrap();
        let Some(res) = results.get(&id) else {
            b.count("scenarios_without_python_result", 1);
            continue;
        };
        b.evaluations += 1;
        if res["outcome"] == "crash" {
            ctx.violate(&format!("python-extension-crashed:{prop}"), format!("scenario {id}: {}", res["message"]), json!({"kind":"python","scenario":s,"python_result":res}));
            continue;
        }
        if res["outcome"] == "driver-error" {
            ctx.inconclusive(format!("python driver error on scenario {id}: {}", crate::util::trunc(res["message"].as_str().unwrap_or(""), 300)));
            continue;
        }
        let sc = Scenario {
            problem: crate::world::Problem { spec: Spec::from_json(&s["spec"]), world: crate::world::World::from_json(&s["world"]), start: crate::util::parse_fs(&s["start"]), goal: crate::world::GoalSpec::from_json(&s["goal"]), infeasible: None, tags: vec![], extra_starts: vec![] },
            params: crate::world::PParams::from_json(&s["planner"]),
            iters: 3000,
            prm_samples: 60,
            script: None,
            query_budget: 1_500_000,
        };
        let pname = sc.params.kind.name();
        let (cls, path, msg) = py_outcome(res);
        b.count(&format!("python_result[{pname}][{}]", if cls == "path" { "path" } else { cls.as_str() }), 1);
        let replay = |extra: Value| json!({"kind":"python","scenario":s,"python_result":res,"note":extra});
        if prop == "C19" {
            b.count(&format!("variant[{}]", sc.problem.spec.wrap.name()), 1);
            let expected = &s["expected"];
            if sc.params.kind == PKind::Prm {
                // soundness of the Python PRM path under the same primitives
                if let Some(p) = &path {
                    b.count("prm_paths_checked", 1);
                    with_kit!(sc.problem.spec, K, kit => {
                        if let Ok(eval) = WorldEval::<K>::new(&kit, &sc.problem.world) {
                            let mut f = path_validity(&kit, &eval, p);
                            f.extend(path_endpoints(&kit, &eval.sp, &sc.problem, p));
                            let lvs = eval.sp.get_longest_valid_segment_length();
                            for w in 0..p.len().saturating_sub(1) {
                                let (sa, sb) = (kit.unflat(&p[w]), kit.unflat(&p[w + 1]));
                                let (run_ab, _) = dense_invalid_run(&kit, &eval.sp, &eval, &sa, &sb, lvs);
                                let run = if run_ab > 0.0 { run_ab.min(dense_invalid_run(&kit, &eval.sp, &eval, &sb, &sa, lvs).0) } else { 0.0 };
                                if lvs > 0.0 && run >= lvs * (1.0 + 2.0 / 64.0) + 1e-9 {
                                    f.push(("invalid-stretch-on-segment".into(), format!("segment {w}: invalid stretch of length {run} (lvs {lvs})")));
                                }
                            }
                            for (sig, det) in f {
                                ctx.violate(&format!("python-prm-unsound:{sig}"), det, replay(json!(null)));
                            }
                            if p.len() >= 3 { b.distinct.insert(crate::props::paths::hash_path(p)); }
                        }
                    });
                }
            } else if !expected.is_null() {
                let exp_cls = if expected["outcome"] == "path" { "path".to_string() } else { expected["kind"].as_str().unwrap_or("").to_string() };
                if cls == "Timeout" && exp_cls != "Timeout" {
                    b.count("python_timed_out(inconclusive for that case)", 1);
                } else if exp_cls == "path" {
                    let ep: Vec<Vec<f64>> = expected["path"].as_array().unwrap().iter().map(crate::util::parse_fs).collect();
                    match &path {
                        Some(p) => {
                            b.count("paths_compared_bitwise", 1);
                            if let (Some(ec), Some(pc)) = (expected["validity_calls"].as_u64(), res["validity_calls"].as_u64()) {
                                b.count("validity_call_counts_compared", 1);
                                if ec != pc {
                                    ctx.violate(&format!("python-validity-call-count-differs:{pname}"), format!("the core asked the checker {ec} times, the Python planner {pc} times for the same seeded problem"), replay(json!(null)));
                                }
                            }
                            if let (Some(ec), Some(pc)) = (expected["goal_sample_calls"].as_u64(), res["goal_sample_calls"].as_u64()) {
                                b.count("goal_sample_counts_compared", 1);
                                if ec != pc {
                                    ctx.violate(&format!("python-goal-sample-count-differs:{pname}"), format!("the core drew {ec} goal samples, the Python planner {pc} for the same seeded problem"), replay(json!(null)));
                                }
                            }
                            if ep.len() >= 3 {
                                b.distinct.insert(crate::props::paths::hash_path(&ep));
                            }
                            if !same_path(p, &ep) {
                                let first = (0..p.len().min(ep.len())).find(|k| !same_path(&p[*k..*k + 1], &ep[*k..*k + 1]));
                                ctx.violate(&format!("python-path-differs-from-core:{pname}"), format!("core path has {} states, python path {}; first difference at index {:?}", ep.len(), p.len(), first), replay(json!(null)));
                            }
                        }
                        None => ctx.violate(&format!("python-error-where-core-finds-path:{pname}"), format!("python raised '{msg}', core returned a path of {} states", ep.len()), replay(json!(null))),
                    }
                } else {
                    b.count("errors_compared", 1);
                    if cls != exp_cls {
                        ctx.violate(&format!("python-error-kind-differs:{pname}"), format!("core: {exp_cls}, python: {cls} ('{msg}')"), replay(json!(null)));
                    }
                }
            }
            if b.samples.len() < 2 && cls == "path" {
                b.sample(json!({"scenario":s["describe"],"python":format!("path of {} states", path.as_ref().map(|p| p.len()).unwrap_or(0)),"core":s["expected"]["outcome"]}));
            }
        } else {
            groups.entry(s["group"].as_u64().unwrap_or(0)).or_default().push((s.clone(), res.clone()));
        }
    }
    // wrappers (C19)
    if prop == "C19" {
        let wres = resd["wrappers"].as_array().cloned().unwrap_or_default();
        let wexp = scen["wrappers"].as_array().cloned().unwrap_or_default();
        if wres.len() != wexp.len() {
            ctx.inconclusive(format!("{} wrapper probes expected, {} answered", wexp.len(), wres.len()));
        }
        for (e, r) in wexp.iter().zip(wres.iter()) {
            b.evaluations += 1;
            b.count("wrapper_probes", 1);
            let ctor = e["ctor"].as_str().unwrap_or("");
            if let Some(ev) = e.get("expect_value") {
                let (x, y) = (crate::util::parse_f(ev), crate::util::parse_f(&r["value"]));
                if x.to_bits() != y.to_bits() && !(x.is_nan() && y.is_nan()) {
                    ctx.violate(&format!("python-wrapper-value-differs:{ctor}"), format!("{ctor}({}) stores {y} in Python, {x} in the core", e["value"]), json!({"kind":"python-wrapper","probe":e,"python":r}));
                }
                if x != crate::util::parse_f(&e["value"]) {
                    b.distinct.insert(crate::util::hash_f64s(crate::util::FNV0, &[x, 19.0]));
                }
                continue;
            }
            let want = e["expect"].as_str().unwrap_or("");
            let got = r["outcome"].as_str().unwrap_or("");
            b.count(&format!("wrapper_ctor[{want}]"), 1);
            if want != got {
                ctx.violate(&format!("python-constructor-outcome-differs:{ctor}"), format!("core: {want}, python: {got} ({})", r["message"]), json!({"kind":"python-wrapper","probe":e,"python":r}));
                continue;
            }
            if let (Some(pe), Some(pr)) = (e["probes"].as_array(), r["probes"].as_array()) {
                for (a, c) in pe.iter().zip(pr.iter()) {
                    let (x, y) = (crate::util::parse_f(&a["expect"]), crate::util::parse_f(c));
                    b.count("wrapper_values_compared", 1);
                    if x.to_bits() != y.to_bits() && !(x.is_nan() && y.is_nan()) {
                        ctx.violate(&format!("python-wrapper-value-differs:{ctor}"), format!("{} gives {y} in Python, {x} in the core", a["op"]), json!({"kind":"python-wrapper","probe":e,"python":r}));
                    }
                }
            }
        }
    }
    // C20 groups
    if prop == "C20" {
        for (g, members) in &groups {
            let reference = members.iter().find(|(s, _)| s["fault"]["kind"] == "false");
            let Some((rs, rr)) = reference else { continue };
            let (rcls, rpath, _) = py_outcome(rr);
            b.count("fault_groups", 1);
            b.count(&format!("fault_target[{}][{}]", rs["fault"]["target"].as_str().unwrap_or(""), rs["fault"]["when"].as_str().unwrap_or("")), 1);
            let spec = Spec::from_json(&rs["spec"]);
            let pname = rs["planner"]["kind"].as_str().unwrap_or("").to_string();
            let is_prm = pname == "PRM";
            // the reference run against the core (region faults on the validity callback)
            if !rs["expected"].is_null() && rcls == "path" {
                let ep: Vec<Vec<f64>> = rs["expected"]["path"].as_array().unwrap().iter().map(crate::util::parse_fs).collect();
                b.count("reference_runs_compared_with_core", 1);
                if !same_path(rpath.as_ref().unwrap(), &ep) {
                    ctx.violate(&format!("python-false-callback-differs-from-core:{pname}"), format!("group {g}"), json!({"kind":"python","scenario":rs,"python_result":rr}));
                }
            }
            for (s, r) in members {
                let kind = s["fault"]["kind"].as_str().unwrap_or("");
                if kind == "false" {
                    continue;
                }
                let (cls, path, msg) = py_outcome(r);
                b.count(&format!("fault_kind[{kind}]"), 1);
                b.count("callback_failures_injected", r["faults_fired"].as_u64().unwrap_or(0));
                if r["faults_fired"].as_u64().unwrap_or(0) > 0 {
                    b.count("variant_runs_where_the_fault_fired", 1);
                    b.count(&format!("fault_fired_in_variant[{}]", spec.wrap.name()), 1);
                    b.distinct.insert(crate::util::hash_str(crate::util::fnv(crate::util::FNV0, *g), kind));
                }
                let replay = json!({"kind":"python","scenario":s,"python_result":r,"reference_result":rr});
                // a failing callback never yields a path through a state on which it failed
                if let Some(p) = &path {
                    if s["fault"]["target"] == "validity" && s["fault"]["when"] == "region" {
                        let region = crate::world::World::from_json(&json!([s["fault"]["region"].clone()]));
                        with_kit!(spec, K, kit => {
                            if let Ok(ev) = WorldEval::<K>::new(&kit, &region) {
                                if let Some(bad) = p.iter().position(|st| !ev.valid(&kit.unflat(st), st)) {
                                    ctx.violate(&format!("path-through-failed-callback-state:{pname}:{kind}"), format!("path[{bad}] lies in the fault region"), replay.clone());
                                }
                            }
                        });
                    }
                }
                // load-independent: RRT, RRT-Connect and RRT* put at least one validity query to
                // the callback in every iteration, and draw at most one goal sample per iteration
                // (RRT-Connect: plus up to 100 validated ones during setup). A run in which far
                // more goal samples were drawn than validity queries reached the Python callback
                // went on planning without consulting the callback.
                if !is_prm {
                    if let (Some(vc), Some(gc)) = (r["validity_calls"].as_u64(), r["goal_sample_calls"].as_u64()) {
                        b.count("callback_consultation_checks", 1);
                        if gc > vc + 100 {
                            ctx.violate(&format!("validity-callback-no-longer-consulted:{pname}:{kind}"), format!("{gc} goal samples drawn but only {vc} validity queries reached the Python callback ({cls}; the False callback: {rcls})"), replay.clone());
                        }
                    }
                }
                if is_prm || cls == "Timeout" || rcls == "Timeout" {
                    // wall-clock dependent: only the "no state in F" check applies
                    b.count("not_comparable(prm_or_timeout)", 1);
                    continue;
                }
                b.count("variant_runs_compared_with_reference", 1);
                match (&path, &rpath) {
                    (Some(p), Some(q)) => {
                        if !same_path(p, q) {
                            ctx.violate(&format!("failing-callback-differs-from-false:{pname}:{}:{kind}", s["fault"]["target"].as_str().unwrap_or("")), format!("callback that fails ({kind}) gives a path of {} states, callback returning False one of {}", p.len(), q.len()), replay.clone());
                        }
                    }
                    (None, None) => {
                        if cls != rcls {
                            ctx.violate(&format!("failing-callback-differs-from-false:{pname}:{}:{kind}", s["fault"]["target"].as_str().unwrap_or("")), format!("{cls} vs {rcls}"), replay.clone());
                        }
                    }
                    _ => ctx.violate(&format!("failing-callback-differs-from-false:{pname}:{}:{kind}", s["fault"]["target"].as_str().unwrap_or("")), format!("failing callback: {cls} '{msg}', False callback: {rcls}"), replay.clone()),
                }
            }
            if b.samples.len() < 2 {
                b.sample(json!({"group":g,"planner":pname,"fault":rs["fault"],"reference":rcls,"variants":members.iter().map(|(s,r)| json!([s["fault"]["kind"], py_outcome(r).0, r["faults_fired"]])).collect::<Vec<_>>() }));
            }
        }
    }
    ctx.merge(b);
    ctx.note(&format!("python stderr bytes: {}", resd["stderr_bytes"]));
    let mut valgrind = json!(null);
    if prop == "C20" {
        if let Ok(path) = std::env::var("VERIF_VALGRIND_SUMMARY") {
            match std::fs::read_to_string(&path).ok().and_then(|t| serde_json::from_str::<Value>(&t).ok()) {
                None => ctx.inconclusive(format!("valgrind summary {path} missing")),
                Some(v) => {
                    for rep in v["reports_with_extension_frames"].as_array().cloned().unwrap_or_default() {
                        ctx.violate("memcheck-error-in-extension", crate::util::trunc(rep.as_str().unwrap_or(""), 900), json!({"kind":"valgrind","report":rep}));
                    }
                    if v["completed"] != json!(true) {
                        ctx.inconclusive("valgrind run did not complete".to_string());
                    }
                    ctx.count("scenarios_under_memcheck", v["scenario_ids"].as_str().map(|s| s.split(',').count() as u64).unwrap_or(0));
                    valgrind = v;
                }
            }
        }
    }
    if prop == "C19" {
        for p in ALL_PLANNERS {
            if p != PKind::Prm {
                ctx.require(&format!("python_result[{}][path]", p.name()));
            }
        }
        for k in ["validity_call_counts_compared", "paths_compared_bitwise", "errors_compared", "prm_paths_checked", "wrapper_values_compared", "wrapper_ctor[ok]", "wrapper_ctor[ValueError]"] {
            ctx.require(k);
        }
        for w in crate::spec::ALL_WRAPS {
            ctx.require(&format!("variant[{}]", w.name()));
        }
        ctx.finish(
            "cases = scenarios (6 problem-definition variants x 4 planners x generated worlds / parameters / seeds) executed through oxmpl_py with Python callbacks evaluating the same primitives with the same IEEE operations, compared with the core's result for the same seed: RRT / RRT-Connect / RRT* paths bit for bit and errors by kind, PRM paths (wall-clock build) for soundness; plus wrapper constructors over the C12 lattice (ValueError iff core Err), distances, extents and canonicalised angles bit for bit; distinct+non-trivial = distinct compared paths with >= 3 states plus re-canonicalised angles",
            &["a time-out on the Python side (wall clock) makes that case inconclusive, never a violation", "CPython floats are IEEE-754 doubles; both sides run the same compiled core arithmetic", "goal samplers are deterministic and do not consume the planner's generator (the Python API does not pass it)"],
            json!({"python_stderr_bytes": resd["stderr_bytes"]}),
        )
    } else {
        for w in crate::spec::ALL_WRAPS {
            ctx.require(&format!("fault_fired_in_variant[{}]", w.name()));
        }
        for k in ["fault_groups", "fault_kind[raise-interrupted]", "fault_kind[raise-keyboard]", "fault_kind[raise]", "fault_kind[none]", "fault_kind[str]", "variant_runs_where_the_fault_fired", "variant_runs_compared_with_reference", "fault_target[validity][region]", "fault_target[validity][kth]", "fault_target[goal][region]"] {
            ctx.require(k);
        }
        ctx.finish(
            "cases = groups of Python planner runs on the same seeded scenario that differ only in how a callback fails (raise / return None / return a str, int or list) on a fault region or at its k-th call (k < 10), compared with the run whose callback returns False in exactly those situations (bitwise path or error kind), with the core run on world + fault region, and checked for 'no path state inside the fault region'; distinct+non-trivial = distinct (group, fault kind) pairs in which the injected fault actually fired",
            &["PRM (wall-clock build time) and timed-out runs are only checked for 'no state in the fault region'", "the JavaScript binding cannot be executed in this image (no wasm32 target / wasm-bindgen): the claim covers the Python binding only", "stderr carries pyo3's printed tracebacks; its size is recorded, not judged"],
            json!({"python_stderr_bytes": resd["stderr_bytes"], "valgrind_memcheck": valgrind}),
        )
    }
}
