//! Worlds (pure validity functions built from primitives), goals, problems and the seeded
//! generators for spaces, worlds, planner parameters and sample alphabets.
use crate::refm::{ref_bounds_violation, ref_distance, ref_lvs};
use crate::spec::{Comp, Spec, Wrap, CK};
use crate::util::{fj, fjs, parse_f, parse_fs, ulp_down, ulp_up, Sm};
use serde_json::{json, Value};
use std::f64::consts::PI;

#[derive(Clone, Debug, PartialEq)]
pub enum Prim {
    /// invalid iff lo <= x[idx] <= hi and x is not inside any gap (glo <= x[j] <= ghi)
    Slab { idx: usize, lo: f64, hi: f64, gaps: Vec<(usize, f64, f64)> },
    /// invalid iff r_in <= d(s, centre) <= r_out, d = the space's own distance
    Shell { centre: Vec<f64>, r_in: f64, r_out: f64 },
}

#[derive(Clone, Debug, PartialEq, Default)]
pub struct World {
    pub prims: Vec<Prim>,
}

#[derive(Clone, Debug, PartialEq)]
pub enum GoalMode {
    Centre,
    List(Vec<Vec<f64>>),
    Rng,
}

#[derive(Clone, Debug, PartialEq)]
pub struct GoalSpec {
    pub centre: Vec<f64>,
    pub radius: f64,
    pub mode: GoalMode,
    /// sample_goal returns Err at this (0-based) call
    pub fail_at: Option<u64>,
    /// additional (non-metric) membership condition: lo <= flat[idx] <= hi. Lets a goal tell
    /// apart states that are at distance 0 from each other (zero-weight components, q / -q)
    pub window: Option<(usize, f64, f64)>,
}

#[derive(Clone, Debug, PartialEq)]
pub struct Problem {
    pub spec: Spec,
    pub world: World,
    pub start: Vec<f64>,
    /// further entries of the problem definition's start list (after `start`)
    pub extra_starts: Vec<Vec<f64>>,
    pub goal: GoalSpec,
    /// set by the generator when no valid path can exist (reason recorded)
    pub infeasible: Option<String>,
    /// free-text tags describing which hostile features were generated
    pub tags: Vec<String>,
}

impl World {
    pub fn to_json(&self) -> Value {
        Value::Array(
            self.prims
                .iter()
                .map(|p| match p {
                    Prim::Slab { idx, lo, hi, gaps } => json!({"slab":{"idx":idx,"lo":fj(*lo),"hi":fj(*hi),
                        "gaps":gaps.iter().map(|(j,l,h)| json!([j,fj(*l),fj(*h)])).collect::<Vec<_>>()}}),
                    Prim::Shell { centre, r_in, r_out } => {
                        json!({"shell":{"centre":fjs(centre),"r_in":fj(*r_in),"r_out":fj(*r_out)}})
                    }
                })
                .collect(),
        )
    }
    pub fn from_json(v: &Value) -> World {
        let prims = v
            .as_array()
            .unwrap()
            .iter()
            .map(|p| {
                if let Some(s) = p.get("slab") {
                    Prim::Slab {
                        idx: s["idx"].as_u64().unwrap() as usize,
                        lo: parse_f(&s["lo"]),
                        hi: parse_f(&s["hi"]),
                        gaps: s["gaps"]
                            .as_array()
                            .unwrap()
                            .iter()
                            .map(|g| (g[0].as_u64().unwrap() as usize, parse_f(&g[1]), parse_f(&g[2])))
                            .collect(),
                    }
                } else {
                    let s = &p["shell"];
                    Prim::Shell {
                        centre: parse_fs(&s["centre"]),
                        r_in: parse_f(&s["r_in"]),
                        r_out: parse_f(&s["r_out"]),
                    }
                }
            })
            .collect();
        World { prims }
    }
}
impl GoalSpec {
    pub fn to_json(&self) -> Value {
        let mode = match &self.mode {
            GoalMode::Centre => json!("centre"),
            GoalMode::Rng => json!("rng"),
            GoalMode::List(l) => json!({"list": l.iter().map(|x| fjs(x)).collect::<Vec<_>>()}),
        };
        json!({"centre":fjs(&self.centre),"radius":fj(self.radius),"mode":mode,"fail_at":self.fail_at,
               "window":self.window.map(|(i, lo, hi)| json!([i, fj(lo), fj(hi)]))})
    }
    pub fn from_json(v: &Value) -> GoalSpec {
        let mode = match &v["mode"] {
            Value::String(s) if s == "rng" => GoalMode::Rng,
            Value::String(_) => GoalMode::Centre,
            o => GoalMode::List(o["list"].as_array().unwrap().iter().map(parse_fs).collect()),
        };
        GoalSpec {
            centre: parse_fs(&v["centre"]),
            radius: parse_f(&v["radius"]),
            mode,
            fail_at: v["fail_at"].as_u64(),
            window: v["window"].as_array().map(|a| (a[0].as_u64().unwrap() as usize, parse_f(&a[1]), parse_f(&a[2]))),
        }
    }
}
impl Problem {
    /// Move the goal region onto the start state (same radius): with an invalid start this is
    /// the "start already satisfies the goal, but is rejected by the checker" corner, which must
    /// still be reported as an invalid start.
    pub fn put_goal_on_start(&mut self) {
        self.goal.centre = self.start.clone();
        if let GoalMode::List(l) = &mut self.goal.mode {
            for g in l.iter_mut() {
                *g = self.start.clone();
            }
        }
        self.tags.push("goal-contains-the-start".into());
    }
    pub fn to_json(&self) -> Value {
        json!({"spec":self.spec.to_json(),"world":self.world.to_json(),"start":fjs(&self.start),
               "goal":self.goal.to_json(),"infeasible":self.infeasible,"tags":self.tags,
               "extra_starts":self.extra_starts.iter().map(|x| fjs(x)).collect::<Vec<_>>()})
    }
    pub fn from_json(v: &Value) -> Problem {
        Problem {
            spec: Spec::from_json(&v["spec"]),
            world: World::from_json(&v["world"]),
            start: parse_fs(&v["start"]),
            extra_starts: v["extra_starts"].as_array().map(|a| a.iter().map(parse_fs).collect()).unwrap_or_default(),
            goal: GoalSpec::from_json(&v["goal"]),
            infeasible: v["infeasible"].as_str().map(|s| s.to_string()),
            tags: v["tags"].as_array().map(|a| a.iter().filter_map(|x| x.as_str().map(|s| s.to_string())).collect()).unwrap_or_default(),
        }
    }
}

// ------------------------------------------------------------------------------------------
// planner parameters
// ------------------------------------------------------------------------------------------
#[derive(Clone, Copy, Debug, PartialEq, Eq, Hash)]
pub enum PKind {
    Rrt,
    Connect,
    Star,
    Prm,
}
pub const ALL_PLANNERS: [PKind; 4] = [PKind::Rrt, PKind::Connect, PKind::Star, PKind::Prm];
impl PKind {
    pub fn name(&self) -> &'static str {
        match self {
            PKind::Rrt => "RRT",
            PKind::Connect => "RRTConnect",
            PKind::Star => "RRTStar",
            PKind::Prm => "PRM",
        }
    }
    pub fn parse(s: &str) -> Option<PKind> {
        ALL_PLANNERS.iter().copied().find(|p| p.name() == s)
    }
}

#[derive(Clone, Debug, PartialEq)]
pub struct PParams {
    pub kind: PKind,
    pub max_distance: f64,
    pub goal_bias: f64,
    pub search_radius: f64,
    pub connection_radius: f64,
    pub seed: Option<u64>,
}
impl PParams {
    pub fn to_json(&self) -> Value {
        json!({"kind":self.kind.name(),"max_distance":fj(self.max_distance),"goal_bias":fj(self.goal_bias),
               "search_radius":fj(self.search_radius),"connection_radius":fj(self.connection_radius),"seed":self.seed})
    }
    pub fn from_json(v: &Value) -> PParams {
        PParams {
            kind: PKind::parse(v["kind"].as_str().unwrap()).unwrap(),
            max_distance: parse_f(&v["max_distance"]),
            goal_bias: parse_f(&v["goal_bias"]),
            search_radius: parse_f(&v["search_radius"]),
            connection_radius: parse_f(&v["connection_radius"]),
            seed: v["seed"].as_u64(),
        }
    }
    /// The C05 limit on consecutive path states.
    pub fn step_limit(&self) -> f64 {
        match self.kind {
            PKind::Rrt | PKind::Connect => self.max_distance,
            PKind::Star => self.max_distance.max(self.search_radius),
            PKind::Prm => self.connection_radius,
        }
    }
}

// ------------------------------------------------------------------------------------------
// quaternion helpers (harness side)
// ------------------------------------------------------------------------------------------
pub fn qmul(a: &[f64], b: &[f64]) -> [f64; 4] {
    // [x,y,z,w]
    let (ax, ay, az, aw) = (a[0], a[1], a[2], a[3]);
    let (bx, by, bz, bw) = (b[0], b[1], b[2], b[3]);
    [
        aw * bx + ax * bw + ay * bz - az * by,
        aw * by - ax * bz + ay * bw + az * bx,
        aw * bz + ax * by - ay * bx + az * bw,
        aw * bw - ax * bx - ay * by - az * bz,
    ]
}
pub fn qnormalize(q: [f64; 4]) -> [f64; 4] {
    let n = (q[0] * q[0] + q[1] * q[1] + q[2] * q[2] + q[3] * q[3]).sqrt();
    [q[0] / n, q[1] / n, q[2] / n, q[3] / n]
}
pub fn axis_angle(axis: [f64; 3], angle: f64) -> [f64; 4] {
    let n = (axis[0] * axis[0] + axis[1] * axis[1] + axis[2] * axis[2]).sqrt();
    let s = (angle / 2.0).sin() / n;
    [axis[0] * s, axis[1] * s, axis[2] * s, (angle / 2.0).cos()]
}
pub fn rand_axis(r: &mut Sm) -> [f64; 3] {
    loop {
        let a = [r.gauss(), r.gauss(), r.gauss()];
        if a[0] * a[0] + a[1] * a[1] + a[2] * a[2] > 1e-6 {
            return a;
        }
    }
}
/// A rotation at exactly (up to rounding) angle `ang` from `c`.
pub fn quat_at(r: &mut Sm, c: &[f64], ang: f64) -> [f64; 4] {
    qnormalize(qmul(c, &axis_angle(rand_axis(r), ang)))
}

// ------------------------------------------------------------------------------------------
// generators
// ------------------------------------------------------------------------------------------
#[derive(Clone, Debug)]
pub struct GenOpts {
    /// allow non-convex angular bounds (SO2 span in (pi,2pi), SO3 cone in (pi/2,pi))
    pub nonconvex: bool,
    /// allow custom resolution fractions
    pub fracs: bool,
    /// allow compound weights 0 / 1e-3 / 50
    pub odd_weights: bool,
    /// keep R^n dimension small (1..3) or allow 6
    pub max_dim: usize,
}
impl Default for GenOpts {
    fn default() -> Self {
        GenOpts { nonconvex: false, fracs: true, odd_weights: true, max_dim: 6 }
    }
}

fn gen_frac(r: &mut Sm, o: &GenOpts) -> Option<f64> {
    if !o.fracs || r.bool(0.55) {
        None
    } else {
        Some(match r.below(6) {
            0 => r.log_range(2e-3, 0.02),
            1 => 1.0,
            2 => r.range(0.3, 1.0),
            _ => r.log_range(0.01, 0.3),
        })
    }
}
fn gen_r_bounds(r: &mut Sm, n: usize) -> Vec<(f64, f64)> {
    // mostly human-scale boxes; sometimes microscopic or huge workspaces (absolute epsilons
    // hidden in the code under test only show at those scales)
    let scale = match r.below(12) {
        0 => r.log_range(1e-7, 1e-4),
        1 => r.log_range(1e3, 1e7),
        _ => 1.0,
    };
    (0..n)
        .map(|_| {
            let s = r.log_range(0.5, 20.0) * scale;
            let c = if r.bool(0.3) { 0.0 } else { r.range(-10.0, 10.0) * scale };
            (c - s / 2.0, c + s / 2.0)
        })
        .collect()
}
fn gen_so2_bounds(r: &mut Sm, o: &GenOpts) -> Option<(f64, f64)> {
    match r.below(10) {
        0..=3 => None,
        4 => Some((-PI, PI)),
        5 => {
            // touching +pi or -pi
            let span = r.range(0.4, PI);
            if r.bool(0.5) {
                Some((PI - span, PI))
            } else {
                Some((-PI, -PI + span))
            }
        }
        6 if o.nonconvex => {
            let span = r.range(PI + 0.05, 2.0 * PI - 0.05);
            let lo = r.range(-PI, PI - span);
            Some((lo, lo + span))
        }
        _ => {
            let span = r.range(0.4, PI);
            let lo = r.range(-PI, PI - span);
            Some((lo, lo + span))
        }
    }
}
fn gen_so3_bounds(r: &mut Sm, o: &GenOpts) -> Option<([f64; 4], f64)> {
    match r.below(10) {
        0..=4 => None,
        5 if o.nonconvex => Some((r.quat(), r.range(0.5 * PI + 0.05, PI - 0.05))),
        6 => Some(([0.0, 0.0, 0.0, 1.0], r.range(0.6, 0.5 * PI))),
        _ => Some((r.quat(), r.range(0.6, 0.5 * PI))),
    }
}
fn gen_weight(r: &mut Sm, o: &GenOpts) -> f64 {
    if o.odd_weights {
        match r.below(12) {
            0 => 0.0,
            1 => 1e-3,
            2 => 50.0,
            3..=6 => 1.0,
            _ => r.log_range(0.2, 4.0),
        }
    } else {
        match r.below(3) {
            0 => 1.0,
            _ => r.log_range(0.3, 3.0),
        }
    }
}
pub fn gen_comp_kind(r: &mut Sm, which: usize, o: &GenOpts) -> CK {
    match which {
        0 => {
            let n = match r.below(8) {
                0 => 1,
                1..=4 => 2,
                5 | 6 => 3,
                _ => o.max_dim.clamp(1, 6),
            };
            CK::R { n, bounds: Some(gen_r_bounds(r, n)) }
        }
        1 => CK::So2 { bounds: gen_so2_bounds(r, o) },
        _ => CK::So3 { bounds: gen_so3_bounds(r, o) },
    }
}

pub fn gen_spec(r: &mut Sm, wrap: Wrap, o: &GenOpts) -> Spec {
    match wrap {
        Wrap::R => Spec::plain(wrap, gen_comp_kind(r, 0, o), gen_frac(r, o)),
        Wrap::So2 => Spec::plain(wrap, gen_comp_kind(r, 1, o), gen_frac(r, o)),
        Wrap::So3 => Spec::plain(wrap, gen_comp_kind(r, 2, o), gen_frac(r, o)),
        Wrap::Compound => {
            let n = match r.below(10) {
                0 => 1,
                1..=5 => 2,
                6..=8 => 3,
                _ => 4,
            };
            let mut comps: Vec<Comp> = (0..n)
                .map(|_| {
                    let which = r.below(3);
                    Comp { kind: gen_comp_kind(r, which, o), weight: gen_weight(r, o), frac: gen_frac(r, o) }
                })
                .collect();
            // at least one component must carry weight, otherwise every distance is 0
            if comps.iter().all(|c| c.weight < 0.1) {
                comps[0].weight = 1.0;
            }
            Spec { wrap, comps }
        }
        Wrap::Se2 => {
            let custom = o.fracs && r.bool(0.3);
            let ab = gen_so2_bounds(r, o).or(Some((-PI, PI)));
            Spec {
                wrap,
                comps: vec![
                    Comp {
                        kind: CK::R { n: 2, bounds: Some(gen_r_bounds(r, 2)) },
                        weight: 1.0,
                        frac: if custom { gen_frac(r, o) } else { None },
                    },
                    Comp {
                        kind: CK::So2 { bounds: ab },
                        weight: *r.pick(&[0.1, 0.5, 1.0, 2.0]),
                        frac: if custom { gen_frac(r, o) } else { None },
                    },
                ],
            }
        }
        Wrap::Se3 => {
            let custom = o.fracs && r.bool(0.3);
            Spec {
                wrap,
                comps: vec![
                    Comp {
                        kind: CK::R { n: 3, bounds: Some(gen_r_bounds(r, 3)) },
                        weight: 1.0,
                        frac: if custom { gen_frac(r, o) } else { None },
                    },
                    Comp {
                        kind: CK::So3 { bounds: if custom { gen_so3_bounds(r, o) } else { None } },
                        weight: *r.pick(&[0.1, 0.5, 1.0, 2.0]),
                        frac: if custom { gen_frac(r, o) } else { None },
                    },
                ],
            }
        }
    }
}

/// A state inside the bounds of the spec, generated without the library.
pub fn rand_state(r: &mut Sm, spec: &Spec) -> Vec<f64> {
    let mut v = vec![];
    for c in &spec.comps {
        match &c.kind {
            CK::R { n, bounds } => {
                for i in 0..*n {
                    let (l, h) = bounds.as_ref().map(|b| b[i]).unwrap_or((-5.0, 5.0));
                    let (l, h) = (if l.is_finite() { l } else { -5.0 }, if h.is_finite() { h } else { 5.0 });
                    v.push(r.range(l, h).clamp(l, h));
                }
            }
            CK::So2 { bounds } => {
                let (l, h) = bounds.unwrap_or((-PI, PI));
                v.push(r.range(l.max(-PI), h.min(PI)));
            }
            CK::So3 { bounds } => match bounds {
                None => v.extend_from_slice(&r.quat()),
                Some((c0, rad)) => {
                    if *rad >= PI - 1e-9 {
                        v.extend_from_slice(&r.quat());
                    } else {
                        let ang = r.range(0.0, 0.98 * rad);
                        v.extend_from_slice(&quat_at(r, c0, ang));
                    }
                }
            },
        }
    }
    v
}

/// Indices (flat index, component index, lo, hi) of coordinates a slab can act on:
/// R coordinates and SO2 angles.
pub fn slab_coords(spec: &Spec) -> Vec<(usize, usize, f64, f64)> {
    let mut out = vec![];
    let mut o = 0;
    for (ci, c) in spec.comps.iter().enumerate() {
        match &c.kind {
            CK::R { n, bounds } => {
                for i in 0..*n {
                    let (l, h) = bounds.as_ref().map(|b| b[i]).unwrap_or((-5.0, 5.0));
                    out.push((o + i, ci, l, h));
                }
            }
            CK::So2 { bounds } => {
                let (l, h) = bounds.unwrap_or((-PI, PI));
                out.push((o, ci, l.max(-PI), h.min(PI)));
            }
            CK::So3 { .. } => {}
        }
        o += c.kind.width();
    }
    out
}

#[derive(Clone, Copy, Debug, PartialEq, Eq)]
pub enum Hostility {
    /// feasible-looking worlds: obstacles, passages
    Plain,
    /// start marginally or deeply inside an obstacle
    InvalidStart,
    /// goal region overlapping / covered by obstacles
    GoalOverlap,
    /// goal sealed off by a shell >= 2 lvs thick (infeasible by construction)
    SealedGoal,
    /// start sealed in
    SealedStart,
    /// goal region entirely invalid
    GoalInvalid,
    /// no obstacles at all
    Free,
}

/// Generate a problem on `spec`. Distances used for sizing come from the reference metric.
pub fn gen_problem(r: &mut Sm, spec: &Spec, host: Hostility) -> Problem {
    let diam = spec.diameter().max(1e-6);
    let lvs = ref_lvs(spec);
    let mut tags = vec![format!("{host:?}")];
    // start / goal some distance apart
    let mut start = rand_state(r, spec);
    let mut gc = rand_state(r, spec);
    for _ in 0..20 {
        if ref_distance(spec, &start, &gc) > 0.25 * diam {
            break;
        }
        start = rand_state(r, spec);
        gc = rand_state(r, spec);
    }
    let sg = ref_distance(spec, &start, &gc);
    let mut radius = (r.log_range(0.03, 0.2) * diam).min(0.4 * sg.max(1e-9));
    if radius <= 0.0 {
        radius = 0.05 * diam;
    }
    let mode = match r.below(5) {
        0 | 1 => GoalMode::Centre,
        2 => {
            // a few in-region samples generated by pulling random states toward the centre is
            // not possible without the library; use the centre and near-centre copies
            GoalMode::List(vec![gc.clone(), gc.clone()])
        }
        _ => GoalMode::Rng,
    };
    let mut world = World::default();
    let mut infeasible = None;
    let coords = slab_coords(spec);

    let add_random_obstacles = |r: &mut Sm, world: &mut World, tags: &mut Vec<String>, keep_clear: &[(&Vec<f64>, f64)]| {
        let n = r.below(4);
        for _ in 0..n {
            if !coords.is_empty() && r.bool(0.5) {
                // slab wall with a gap between start and goal on some coordinate
                let (idx, ci, lo, hi) = *r.pick(&coords);
                let w = spec.comps[ci].weight.max(1e-9);
                let (a, b) = (start[idx].min(gc[idx]), start[idx].max(gc[idx]));
                let pos = if b - a > 1e-6 { r.range(a, b) } else { r.range(lo, hi) };
                let thick_metric = match r.below(4) {
                    0 => r.range(0.0, 0.08) * lvs,          // sliver, thinner than the check spacing
                    1 => r.range(1.2, 3.0) * lvs,            // thicker than the resolution
                    2 => r.range(0.3, 1.0) * lvs,
                    _ => r.range(0.02, 0.1) * diam,
                };
                let th = thick_metric / w;
                let (slo, shi) = (pos - th / 2.0, pos + th / 2.0);
                let mut gaps = vec![];
                if coords.len() > 1 && r.bool(0.8) {
                    let (j, _, glo, ghi) = *r.pick(&coords);
                    if j != idx {
                        let gw = (ghi - glo) * r.range(0.1, 0.4);
                        let gl = r.range(glo, ghi - gw);
                        gaps.push((j, gl, gl + gw));
                    }
                }
                let p = Prim::Slab { idx, lo: slo, hi: shi, gaps };
                // never bury the protected states
                let bad = keep_clear.iter().any(|(s, _)| s[idx] >= slo - 1e-9 && s[idx] <= shi + 1e-9);
                if !bad {
                    tags.push("slab".into());
                    world.prims.push(p);
                }
            } else {
                let c = rand_state(r, spec);
                let rad = r.log_range(0.03, 0.25) * diam;
                let (r_in, r_out) = if r.bool(0.3) { (rad, rad + r.range(0.05, 2.5) * lvs.max(1e-3 * diam)) } else { (0.0, rad) };
                let bad = keep_clear.iter().any(|(s, clr)| {
                    let d = ref_distance(spec, s, &c);
                    d >= r_in - clr - 1e-6 && d <= r_out + clr + 1e-6
                });
                if !bad {
                    tags.push(if r_in > 0.0 { "shell".into() } else { "ball".into() });
                    world.prims.push(Prim::Shell { centre: c, r_in, r_out });
                }
            }
        }
    };

    match host {
        Hostility::Free => {}
        Hostility::Plain => {
            let keep = [(&start, 1e-3 * diam), (&gc, radius)];
            add_random_obstacles(r, &mut world, &mut tags, &keep);
        }
        Hostility::InvalidStart => {
            let keep = [(&gc, radius)];
            add_random_obstacles(r, &mut world, &mut tags, &keep);
            // an obstacle that contains the start: marginally (boundary through / next to the
            // start) or deeply
            let marg = r.below(4);
            if !coords.is_empty() && r.bool(0.5) {
                let (idx, ci, _, _) = *r.pick(&coords);
                let w = spec.comps[ci].weight.max(1e-9);
                let th = r.range(0.5, 3.0) * lvs.max(1e-3 * diam) / w;
                let x = start[idx];
                let (lo, hi) = match marg {
                    0 => (x - th, x),                       // boundary exactly at the start (inclusive)
                    1 => (x - th, ulp_up(x)),               // 1 ulp inside
                    2 => (x - th, x + 1e-9 * (1.0 + x.abs())),
                    _ => (x - th, x + th),                  // deep
                };
                tags.push(format!("start-in-slab-{marg}"));
                world.prims.push(Prim::Slab { idx, lo, hi, gaps: vec![] });
            } else {
                let c = rand_state(r, spec);
                let d = ref_distance(spec, &start, &c);
                let rad = match marg {
                    0 => d * (1.0 + 1e-12) + 1e-300,
                    1 => d * (1.0 + 1e-9) + 1e-12,
                    2 => d + 1e-6 * diam,
                    _ => d + 0.05 * diam,
                };
                // SO3 distances carry ~4e-8 noise: make sure the start really is inside
                let rad = if spec.has_so3() { rad + 1e-6 } else { rad };
                tags.push(format!("start-in-ball-{marg}"));
                world.prims.push(Prim::Shell { centre: c, r_in: 0.0, r_out: rad });
            }
        }
        Hostility::GoalOverlap => {
            let keep = [(&start, 1e-3 * diam)];
            add_random_obstacles(r, &mut world, &mut tags, &keep);
            // a ball overlapping the goal region; with prob 1/2 it covers the goal centre
            let cover = r.bool(0.5);
            let c = rand_state(r, spec);
            let d = ref_distance(spec, &gc, &c);
            let rad = if cover { d + r.range(0.1, 0.7) * radius } else { (d - r.range(0.1, 0.9) * radius).max(0.0) };
            if ref_distance(spec, &start, &c) > rad + 1e-3 * diam {
                tags.push(if cover { "goal-centre-covered".into() } else { "goal-partly-covered".into() });
                world.prims.push(Prim::Shell { centre: c, r_in: 0.0, r_out: rad });
            }
        }
        Hostility::GoalInvalid => {
            let keep = [(&start, 1e-3 * diam)];
            add_random_obstacles(r, &mut world, &mut tags, &keep);
            let pad = (r.range(0.0, 1.0) * lvs).max(1e-6 * diam) + if spec.has_so3() { 1e-6 } else { 0.0 };
            if ref_distance(spec, &start, &gc) > radius + pad + 1e-3 * diam {
                world.prims.push(Prim::Shell { centre: gc.clone(), r_in: 0.0, r_out: radius + pad });
                infeasible = Some("goal region entirely invalid".to_string());
            }
        }
        Hostility::SealedGoal | Hostility::SealedStart => {
            let keep = [(&start, 1e-3 * diam), (&gc, radius)];
            add_random_obstacles(r, &mut world, &mut tags, &keep);
            let (inner, other, clear) = if host == Hostility::SealedGoal { (&gc, &start, radius) } else { (&start, &gc, 1e-3 * diam) };
            let thick = r.range(2.0, 4.0) * lvs + if spec.has_so3() { 1e-5 } else { 0.0 };
            let r_in = clear + r.range(0.01, 0.1) * diam;
            let r_out = r_in + thick;
            let d_other = ref_distance(spec, inner, other);
            let other_clear = if host == Hostility::SealedGoal { 0.0 } else { radius };
            if d_other > r_out + other_clear + 1e-3 * diam && lvs > 0.0 {
                world.prims.push(Prim::Shell { centre: inner.clone(), r_in, r_out });
                infeasible = Some(format!("{host:?}: shell of metric thickness {thick:.4} >= 2*lvs ({lvs:.4})"));
            }
        }
    }
    // Representation-dependent validity at the SO2 seam: -pi and +pi are the same configuration
    // (distance 0) but a user's checker that looks at the raw angle may accept only one of them.
    if matches!(host, Hostility::Plain | Hostility::GoalOverlap) && r.bool(0.2) {
        let offs = spec.offsets();
        for (ci, c) in spec.comps.iter().enumerate() {
            if let CK::So2 { bounds } = &c.kind {
                let (l, h) = bounds.unwrap_or((-PI, PI));
                if l <= -PI && h >= PI {
                    let idx = offs[ci];
                    let w = r.log_range(1e-6, 0.05);
                    let (lo, hi) = if r.bool(0.5) { (-PI, -PI + w) } else { (PI - w, PI) };
                    if !(start[idx] >= lo && start[idx] <= hi) && !(gc[idx] >= lo && gc[idx] <= hi) {
                        world.prims.push(Prim::Slab { idx, lo, hi, gaps: vec![] });
                        tags.push("seam-asymmetric-slab".into());
                    }
                    break;
                }
            }
        }
    }
    Problem {
        spec: spec.clone(),
        world,
        start,
        extra_starts: vec![],
        goal: GoalSpec { centre: gc, radius, mode, fail_at: None, window: None },
        infeasible,
        tags,
    }
}

/// Planner parameters relative to the space diameter.
pub fn gen_params(r: &mut Sm, spec: &Spec, kind: PKind, extreme: bool) -> PParams {
    let diam = spec.diameter().max(1e-6);
    let step = if extreme {
        match r.below(4) {
            0 => r.log_range(1e-3, 1e-2) * diam,
            1 => r.log_range(1.0, 10.0) * diam,
            _ => r.log_range(0.02, 0.5) * diam,
        }
    } else {
        r.log_range(0.03, 0.4) * diam
    };
    let rad_mult = *r.pick(&[0.5, 1.0, 1.5, 2.0, 5.0]);
    let bias = *r.pick(&[0.0, 0.05, 0.05, 0.2, 0.5, 1.0]);
    PParams {
        kind,
        max_distance: step,
        goal_bias: if kind == PKind::Prm { 0.0 } else { bias },
        // (now and then exactly 0: rewiring switched off)
        search_radius: if kind == PKind::Star && r.bool(0.04) { 0.0 } else { step * rad_mult },
        connection_radius: if extreme { step * rad_mult } else { r.log_range(0.1, 0.6) * diam },
        seed: Some(r.next_u64() >> 1),
    }
}

/// A sample alphabet for scripted runs: start, goal centre, duplicates, seam / antipodal
/// states, near-boundary states and random in-bounds states. All letters are in bounds.
pub fn alphabet(r: &mut Sm, p: &Problem, n_random: usize) -> Vec<Vec<f64>> {
    let spec = &p.spec;
    let mut al: Vec<Vec<f64>> = vec![p.start.clone(), p.goal.centre.clone()];
    // per-component special values combined with random values elsewhere
    let offs = spec.offsets();
    for (ci, c) in spec.comps.iter().enumerate() {
        let o = offs[ci];
        let mut specials: Vec<Vec<f64>> = vec![];
        match &c.kind {
            CK::So2 { bounds } => {
                let (l, h) = bounds.unwrap_or((-PI, PI));
                let (l, h) = (l.max(-PI), h.min(PI));
                for x in [l, h, ulp_down(h), ulp_up(l), 0.0, p.start[o] + PI, p.start[o] - PI] {
                    if x >= l && x <= h {
                        specials.push(vec![x]);
                    }
                }
            }
            CK::So3 { bounds } => {
                let s = &p.start[o..o + 4];
                // -q (same rotation), antipodal rotation (angle pi from start), near-identical
                specials.push(s.iter().map(|x| -x).collect());
                let anti = quat_at(r, s, PI);
                let near = quat_at(r, s, 1e-9);
                let nearlerp = quat_at(r, s, 0.06); // dot ~ 0.99955: around the LERP/SLERP switch
                for q in [anti, near, nearlerp] {
                    let ok = match bounds {
                        None => true,
                        Some((c0, rad)) => crate::refm::ref_so3_dist(c0, &q) <= *rad - 1e-6,
                    };
                    if ok {
                        specials.push(q.to_vec());
                    }
                }
            }
            CK::R { n, bounds } => {
                if let Some(b) = bounds {
                    let lo: Vec<f64> = (0..*n).map(|i| b[i].0).collect();
                    let hi: Vec<f64> = (0..*n).map(|i| b[i].1).collect();
                    if lo.iter().chain(hi.iter()).all(|x| x.is_finite()) {
                        specials.push(lo);
                        specials.push(hi);
                    }
                }
            }
        }
        for sp in specials {
            let mut v = if r.bool(0.5) { p.start.clone() } else { rand_state(r, spec) };
            v[o..o + sp.len()].copy_from_slice(&sp);
            al.push(v);
        }
    }
    // points next to obstacle boundaries
    for prim in &p.world.prims {
        if let Prim::Slab { idx, lo, hi, .. } = prim {
            for x in [ulp_down(*lo), *lo, *hi, ulp_up(*hi)] {
                let mut v = rand_state(r, spec);
                v[*idx] = x;
                if ref_bounds_violation(spec, &v, 0.0, 0.0).is_none() {
                    al.push(v);
                }
            }
        }
    }
    for _ in 0..n_random {
        al.push(rand_state(r, spec));
    }
    // duplicates on purpose
    let d = al[r.below(al.len())].clone();
    al.push(d);
    // samplers only ever return canonical in-bounds states: keep the alphabet realistic
    al.retain(|v| ref_bounds_violation(spec, v, 0.0, 1e-9).is_none() && crate::refm::canonical_violation(spec, v, 1e-9).is_none());
    al
}
