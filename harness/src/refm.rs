//! Independent reference mathematics over (Spec, flat state): distances, bounds tests,
//! canonical-form tests, resolution. None of this calls into oxmpl.
use crate::spec::{Spec, CK};
use std::f64::consts::PI;

pub const TWO_PI: f64 = 2.0 * PI;

/// |wrap(a-b)| computed through atan2(sin, cos): no rem_euclid, no branch on the seam.
pub fn ref_so2_dist(a: f64, b: f64) -> f64 {
    let d = a - b;
    d.sin().atan2(d.cos()).abs()
}

/// Rotation angle between two unit quaternions (q ~ -q), accurate near 0 and near pi.
pub fn ref_so3_dist(a: &[f64], b: &[f64]) -> f64 {
    let mut m = 0.0f64; // |a-b|
    let mut p = 0.0f64; // |a+b|
    for i in 0..4 {
        m = m.hypot(a[i] - b[i]);
        p = p.hypot(a[i] + b[i]);
    }
    let (lo, hi) = if m < p { (m, p) } else { (p, m) };
    4.0 * lo.atan2(hi)
}

pub fn ref_r_dist(a: &[f64], b: &[f64]) -> f64 {
    let mut acc = 0.0f64;
    for i in 0..a.len() {
        acc = acc.hypot(a[i] - b[i]);
    }
    acc
}

pub fn ref_comp_dist(kind: &CK, a: &[f64], b: &[f64]) -> f64 {
    match kind {
        CK::R { .. } => ref_r_dist(a, b),
        CK::So2 { .. } => ref_so2_dist(a[0], b[0]),
        CK::So3 { .. } => ref_so3_dist(a, b),
    }
}

pub fn ref_distance(spec: &Spec, a: &[f64], b: &[f64]) -> f64 {
    use crate::spec::Wrap;
    let plain = matches!(spec.wrap, Wrap::R | Wrap::So2 | Wrap::So3);
    let mut acc = 0.0f64;
    let mut o = 0;
    for c in &spec.comps {
        let w = c.kind.width();
        let d = ref_comp_dist(&c.kind, &a[o..o + w], &b[o..o + w]);
        if plain {
            return d;
        }
        acc = acc.hypot(d * c.weight);
        o += w;
    }
    acc
}

/// Absolute tolerance for comparing a library distance with the reference on this spec.
pub fn dist_tol(spec: &Spec, scale: f64) -> f64 {
    let base = 1e-12 + 8.0 * f64::EPSILON * scale.abs();
    let mut so3 = 0.0f64;
    for c in &spec.comps {
        if let CK::So3 { .. } = c.kind {
            let w = if spec.is_plain() { 1.0 } else { c.weight.abs() };
            so3 = so3.hypot(1e-7 * w);
        }
    }
    base + so3
}

pub fn ref_lvs(spec: &Spec) -> f64 {
    use crate::spec::Wrap;
    let plain = matches!(spec.wrap, Wrap::R | Wrap::So2 | Wrap::So3);
    let mut acc = 0.0f64;
    for c in &spec.comps {
        let l = c.kind.extent() * eff_frac(c.frac);
        if plain {
            return l;
        }
        acc += (l * c.weight) * (l * c.weight);
    }
    acc.sqrt()
}
pub fn eff_frac(f: Option<f64>) -> f64 {
    match f {
        None => 0.05,
        Some(f) if f > 0.0 && f <= 1.0 => f,
        Some(f) if f <= 0.0 => 0.0,
        Some(_) => 1.0,
    }
}

/// Independent bounds test. Returns Some((component index, excess)) for the first violated
/// component, None when in bounds up to `tol` (so3 components get `tol_so3`).
pub fn ref_bounds_violation(spec: &Spec, v: &[f64], tol: f64, tol_so3: f64) -> Option<(usize, f64)> {
    ref_bounds_violation_opt(spec, v, tol, tol_so3, false)
}
/// `numerically`: an angle must lie in its interval as a number, not only modulo 2 pi (what
/// `enforce_bounds` promises for its result).
pub fn ref_bounds_violation_opt(spec: &Spec, v: &[f64], tol: f64, tol_so3: f64, numerically: bool) -> Option<(usize, f64)> {
    let mut o = 0;
    for (ci, c) in spec.comps.iter().enumerate() {
        let w = c.kind.width();
        let x = &v[o..o + w];
        match &c.kind {
            CK::R { bounds: Some(b), .. } => {
                for i in 0..w {
                    let t = tol * (1.0 + x[i].abs());
                    if !(x[i] >= b[i].0 - t && x[i] <= b[i].1 + t) {
                        let ex = (b[i].0 - x[i]).max(x[i] - b[i].1);
                        return Some((ci, ex));
                    }
                }
            }
            CK::R { bounds: None, .. } => {
                if x.iter().any(|y| y.is_nan()) {
                    return Some((ci, f64::NAN));
                }
            }
            CK::So2 { bounds } => {
                let (lo, hi) = bounds.unwrap_or((-PI, PI));
                let (lo, hi) = (lo.max(-PI), hi.min(PI));
                let a = x[0];
                if !a.is_finite() {
                    return Some((ci, f64::NAN));
                }
                let mut ok = false;
                let mut best = f64::INFINITY;
                // (states may carry un-normalised angles several turns away)
                for k in [-4.0, -3.0, -2.0, -1.0, 0.0, 1.0, 2.0, 3.0, 4.0] {
                    if numerically && k != 0.0 {
                        continue;
                    }
                    let y = a + k * TWO_PI;
                    let ex = (lo - y).max(y - hi);
                    if ex <= tol {
                        ok = true;
                    }
                    best = best.min(ex);
                }
                if !ok {
                    return Some((ci, best));
                }
            }
            CK::So3 { bounds } => {
                if x.iter().any(|y| !y.is_finite()) {
                    return Some((ci, f64::NAN));
                }
                if let Some((c0, r)) = bounds {
                    let r = r.min(PI);
                    let d = ref_so3_dist(c0, x);
                    if !(d <= r + tol_so3) {
                        return Some((ci, d - r));
                    }
                }
            }
        }
        o += w;
    }
    None
}

/// Is the region described by component `ci` geodesically convex (shortest paths between two
/// in-bounds states stay in bounds)? Boxes always; SO2 intervals of span <= pi or the full
/// circle; SO3 cones of radius <= pi/2 or the full group.
pub fn comp_convex(kind: &CK) -> bool {
    match kind {
        CK::R { .. } => true,
        CK::So2 { bounds } => match bounds {
            None => true,
            Some((l, h)) => {
                let (l, h) = (l.max(-PI), h.min(PI));
                let span = h - l;
                span <= PI + 1e-12 || span >= TWO_PI - 1e-12
            }
        },
        CK::So3 { bounds } => match bounds {
            None => true,
            Some((_, r)) => *r <= 0.5 * PI + 1e-12 || *r >= PI - 1e-12,
        },
    }
}

pub fn quat_norm(q: &[f64]) -> f64 {
    let m = q.iter().fold(0.0f64, |a, x| a.max(x.abs()));
    if m == 0.0 || !m.is_finite() {
        return m;
    }
    let s: f64 = q.iter().map(|x| (x / m) * (x / m)).sum();
    m * s.sqrt()
}

/// Canonical-form test: SO2 angles inside [-pi,pi], quaternions of unit norm, all finite.
pub fn canonical_violation(spec: &Spec, v: &[f64], unit_tol: f64) -> Option<String> {
    let mut o = 0;
    for (ci, c) in spec.comps.iter().enumerate() {
        let w = c.kind.width();
        let x = &v[o..o + w];
        if x.iter().any(|y| !y.is_finite()) {
            return Some(format!("component {ci}: non-finite value {x:?}"));
        }
        match &c.kind {
            CK::So2 { .. } => {
                if !(x[0] >= -PI && x[0] <= PI) {
                    return Some(format!("component {ci}: angle {} outside [-pi,pi]", x[0]));
                }
            }
            CK::So3 { .. } => {
                let n = quat_norm(x);
                if (n - 1.0).abs() > unit_tol {
                    return Some(format!("component {ci}: quaternion norm {n}"));
                }
            }
            _ => {}
        }
        o += w;
    }
    None
}

/// Are two flat states the same configuration (angles mod 2pi, q ~ -q), within tol per comp?
pub fn same_config(spec: &Spec, a: &[f64], b: &[f64], tol: f64) -> bool {
    let mut o = 0;
    for c in &spec.comps {
        let w = c.kind.width();
        let d = ref_comp_dist(&c.kind, &a[o..o + w], &b[o..o + w]);
        let t = match c.kind {
            CK::So3 { .. } => tol.max(1e-7),
            _ => tol,
        };
        if !(d <= t * (1.0 + a[o].abs())) {
            return false;
        }
        o += w;
    }
    true
}
