//! Small shared utilities: harness-side PRNG, hashing, hex floats, violation / evidence plumbing.
use serde_json::{json, Value};
use std::collections::{BTreeMap, HashSet};
use std::io::Write;
use std::path::PathBuf;
use std::sync::Mutex;
use std::time::Instant;

// ------------------------------------------------------------------------------------------
// stdout handling: the planners println! on success; the harness moves the real stdout to a
// private descriptor and points fd 1 at /dev/null so that only harness lines are printed.
// ------------------------------------------------------------------------------------------
extern "C" {
    fn dup(fd: i32) -> i32;
    fn dup2(a: i32, b: i32) -> i32;
}
static REAL_OUT: std::sync::OnceLock<Mutex<std::fs::File>> = std::sync::OnceLock::new();

pub fn silence_stdout() {
    use std::os::fd::{AsRawFd, FromRawFd};
    if std::env::var("VERIF_KEEP_STDOUT").is_ok() {
        return;
    }
    unsafe {
        let saved = dup(1);
        if saved < 0 {
            return;
        }
        if let Ok(null) = std::fs::OpenOptions::new().write(true).open("/dev/null") {
            dup2(null.as_raw_fd(), 1);
        }
        let _ = REAL_OUT.set(Mutex::new(std::fs::File::from_raw_fd(saved)));
    }
}
/// Print one line on the real stdout.
pub fn say(line: &str) {
    match REAL_OUT.get() {
        Some(f) => {
            let mut g = f.lock().unwrap();
            let _ = writeln!(g, "{line}");
        }
        None => println!("{line}"),
    }
}

// ------------------------------------------------------------------------------------------
// SplitMix64: the harness' own generator (never shared with the code under test).
// ------------------------------------------------------------------------------------------
#[derive(Clone, Debug)]
pub struct Sm(pub u64);

impl Sm {
    pub fn new(seed: u64) -> Self {
        Sm(seed)
    }
    /// Derive an independent stream from a base seed and a list of tags.
    pub fn derive(seed: u64, tags: &[u64]) -> Self {
        let mut s = Sm(seed ^ 0x9E37_79B9_7F4A_7C15);
        let mut acc = s.next_u64();
        for &t in tags {
            s.0 = acc ^ t.wrapping_mul(0xBF58_476D_1CE4_E5B9);
            acc = s.next_u64();
        }
        Sm(acc)
    }
    pub fn next_u64(&mut self) -> u64 {
        self.0 = self.0.wrapping_add(0x9E37_79B9_7F4A_7C15);
        let mut z = self.0;
        z = (z ^ (z >> 30)).wrapping_mul(0xBF58_476D_1CE4_E5B9);
        z = (z ^ (z >> 27)).wrapping_mul(0x94D0_49BB_1331_11EB);
        z ^ (z >> 31)
    }
    /// Uniform in [0,1).
    pub fn f(&mut self) -> f64 {
        (self.next_u64() >> 11) as f64 / (1u64 << 53) as f64
    }
    pub fn range(&mut self, lo: f64, hi: f64) -> f64 {
        lo + (hi - lo) * self.f()
    }
    /// Log-uniform in [lo,hi] (lo>0).
    pub fn log_range(&mut self, lo: f64, hi: f64) -> f64 {
        (self.range(lo.ln(), hi.ln())).exp()
    }
    pub fn below(&mut self, n: usize) -> usize {
        if n == 0 {
            0
        } else {
            (self.next_u64() % n as u64) as usize
        }
    }
    pub fn int(&mut self, lo: i64, hi: i64) -> i64 {
        lo + (self.next_u64() % ((hi - lo + 1) as u64)) as i64
    }
    pub fn bool(&mut self, p: f64) -> bool {
        self.f() < p
    }
    pub fn pick<'a, T>(&mut self, xs: &'a [T]) -> &'a T {
        &xs[self.below(xs.len())]
    }
    /// Standard normal (Box-Muller).
    pub fn gauss(&mut self) -> f64 {
        let u1 = 1.0 - self.f();
        let u2 = self.f();
        (-2.0 * u1.ln()).sqrt() * (2.0 * std::f64::consts::PI * u2).cos()
    }
    /// Uniform unit quaternion [x,y,z,w].
    pub fn quat(&mut self) -> [f64; 4] {
        loop {
            let q = [self.gauss(), self.gauss(), self.gauss(), self.gauss()];
            let n = (q[0] * q[0] + q[1] * q[1] + q[2] * q[2] + q[3] * q[3]).sqrt();
            if n > 1e-6 {
                return [q[0] / n, q[1] / n, q[2] / n, q[3] / n];
            }
        }
    }
}

// ------------------------------------------------------------------------------------------
// hashing / formatting
// ------------------------------------------------------------------------------------------
pub fn fnv(acc: u64, x: u64) -> u64 {
    let mut h = acc;
    for b in x.to_le_bytes() {
        h ^= b as u64;
        h = h.wrapping_mul(0x0000_0100_0000_01B3);
    }
    h
}
pub const FNV0: u64 = 0xcbf2_9ce4_8422_2325;

pub fn hash_f64s(acc: u64, xs: &[f64]) -> u64 {
    let mut h = fnv(acc, xs.len() as u64);
    for x in xs {
        h = fnv(h, x.to_bits());
    }
    h
}
pub fn hash_str(acc: u64, s: &str) -> u64 {
    let mut h = acc;
    for b in s.bytes() {
        h ^= b as u64;
        h = h.wrapping_mul(0x0000_0100_0000_01B3);
    }
    h
}

/// Lossless, human-legible float for JSON: the shortest round-trip decimal (Rust's `{:?}`),
/// with non-finite values spelled out.
pub fn fj(x: f64) -> Value {
    if x.is_finite() {
        json!(x)
    } else if x.is_nan() {
        json!("NaN")
    } else if x > 0.0 {
        json!("inf")
    } else {
        json!("-inf")
    }
}
pub fn fjs(xs: &[f64]) -> Value {
    Value::Array(xs.iter().map(|x| fj(*x)).collect())
}
pub fn parse_f(v: &Value) -> f64 {
    match v {
        Value::Number(n) => n.as_f64().unwrap(),
        Value::String(s) => match s.as_str() {
            "NaN" => f64::NAN,
            "inf" => f64::INFINITY,
            "-inf" => f64::NEG_INFINITY,
            o => o.parse().unwrap_or(f64::NAN),
        },
        _ => f64::NAN,
    }
}
pub fn parse_fs(v: &Value) -> Vec<f64> {
    v.as_array().map(|a| a.iter().map(parse_f).collect()).unwrap_or_default()
}
pub fn hexf(x: f64) -> String {
    format!("{:016x}", x.to_bits())
}

pub fn ulp_up(x: f64) -> f64 {
    if x.is_nan() || x == f64::INFINITY {
        return x;
    }
    if x == 0.0 {
        return f64::from_bits(1);
    }
    let b = x.to_bits();
    if x > 0.0 {
        f64::from_bits(b + 1)
    } else {
        f64::from_bits(b - 1)
    }
}
pub fn ulp_down(x: f64) -> f64 {
    -ulp_up(-x)
}

// ------------------------------------------------------------------------------------------
// Run context: tier, seed, violations, known findings, evidence
// ------------------------------------------------------------------------------------------
#[derive(Clone, Copy, PartialEq, Eq, Debug)]
pub enum Tier {
    Quick,
    Thorough,
}
impl Tier {
    pub fn name(&self) -> &'static str {
        match self {
            Tier::Quick => "quick",
            Tier::Thorough => "thorough",
        }
    }
    pub fn pick<T>(&self, q: T, t: T) -> T {
        match self {
            Tier::Quick => q,
            Tier::Thorough => t,
        }
    }
}

#[derive(Clone, Debug)]
pub struct Violation {
    pub property: String,
    /// Stable signature of *what* fails (input class / call site); known findings key on it.
    pub signature: String,
    pub detail: String,
    /// Everything needed to re-execute the failing case.
    pub replay: Value,
}

pub struct KnownFinding {
    pub property: String,
    pub signature: String,
    pub status: String,
    pub description: String,
}

pub fn verif_root() -> PathBuf {
    PathBuf::from(std::env::var("VERIF_ROOT").unwrap_or_else(|_| "/verif".to_string()))
}

/// Where evidence and replay files go: /verif normally, a private directory when the checks
/// run against another checkout (VERIF_REPO), so that such runs never overwrite the evidence.
pub fn out_root() -> PathBuf {
    match std::env::var("VERIF_OUT") {
        Ok(p) if !p.is_empty() => PathBuf::from(p),
        _ => verif_root(),
    }
}

pub fn load_known_findings() -> Vec<KnownFinding> {
    let p = verif_root().join("known_findings.json");
    let Ok(txt) = std::fs::read_to_string(&p) else {
        return vec![];
    };
    let v: Value = serde_json::from_str(&txt).expect("known_findings.json is not valid JSON");
    v["findings"]
        .as_array()
        .cloned()
        .unwrap_or_default()
        .iter()
        .map(|f| KnownFinding {
            property: f["property"].as_str().unwrap_or("").to_string(),
            signature: f["signature"].as_str().unwrap_or("").to_string(),
            status: f["status"].as_str().unwrap_or("").to_string(),
            description: f["description"].as_str().unwrap_or("").to_string(),
        })
        .collect()
}

/// Thread-safe collector for one check run.
pub struct Ctx {
    pub property: String,
    pub tier: Tier,
    pub seed: u64,
    pub level: &'static str,
    /// replay mode: no evidence / replay files are written
    pub replay_of: Option<String>,
    start: Instant,
    inner: Mutex<CtxInner>,
}

#[derive(Default)]
struct CtxInner {
    violations: Vec<Violation>,
    evaluations: u64,
    distinct: HashSet<u64>,
    counters: BTreeMap<String, u64>,
    maxima: BTreeMap<String, f64>,
    samples: Vec<Value>,
    inconclusive: Vec<String>,
    required: Vec<String>,
    notes: Vec<String>,
}

impl Ctx {
    pub fn new(property: &str, tier: Tier, seed: u64, level: &'static str) -> Self {
        crate::watch::start(property, tier.name(), seed, level);
        Ctx {
            property: property.to_string(),
            tier,
            seed,
            level,
            replay_of: None,
            start: Instant::now(),
            inner: Mutex::new(CtxInner::default()),
        }
    }
    pub fn violate(&self, signature: &str, detail: String, replay: Value) {
        let mut g = self.inner.lock().unwrap();
        // keep at most 40 full records per signature; count all
        *g.counters.entry(format!("violations[{signature}]")).or_insert(0) += 1;
        let n = g.violations.iter().filter(|v| v.signature == signature).count();
        if n < 40 {
            g.violations.push(Violation {
                property: self.property.clone(),
                signature: signature.to_string(),
                detail,
                replay,
            });
        }
    }
    pub fn eval(&self, n: u64) {
        self.inner.lock().unwrap().evaluations += n;
    }
    /// Record a distinct non-trivial observation by hash.
    pub fn distinct(&self, h: u64) {
        self.inner.lock().unwrap().distinct.insert(h);
    }
    pub fn count(&self, key: &str, n: u64) {
        *self.inner.lock().unwrap().counters.entry(key.to_string()).or_insert(0) += n;
    }
    pub fn max(&self, key: &str, v: f64) {
        let mut g = self.inner.lock().unwrap();
        let e = g.maxima.entry(key.to_string()).or_insert(f64::NEG_INFINITY);
        if v > *e {
            *e = v;
        }
    }
    pub fn sample(&self, v: Value) {
        let mut g = self.inner.lock().unwrap();
        if g.samples.len() < 6 {
            g.samples.push(v);
        }
    }
    pub fn n_samples(&self) -> usize {
        self.inner.lock().unwrap().samples.len()
    }
    pub fn inconclusive(&self, why: String) {
        let mut g = self.inner.lock().unwrap();
        if g.inconclusive.len() < 50 {
            g.inconclusive.push(why);
        }
    }
    /// Declare that counter `key` must be > 0 for the run to be conclusive.
    pub fn require(&self, key: &str) {
        self.inner.lock().unwrap().required.push(key.to_string());
    }
    pub fn note(&self, s: &str) {
        self.inner.lock().unwrap().notes.push(s.to_string());
    }
    pub fn counter(&self, key: &str) -> u64 {
        *self.inner.lock().unwrap().counters.get(key).unwrap_or(&0)
    }

    /// Fold the summary written by checks/with_miri.sh (thorough tier) into this run.
    pub fn fold_miri_summary(&self) -> Value {
        let Ok(path) = std::env::var("VERIF_MIRI_SUMMARY") else { return json!(null) };
        let Ok(txt) = std::fs::read_to_string(&path) else {
            self.inconclusive(format!("Miri summary {path} is missing"));
            return json!(null);
        };
        let v: Value = serde_json::from_str(&txt).unwrap_or(json!(null));
        for ub in v["undefined_behaviour"].as_array().cloned().unwrap_or_default() {
            self.violate("miri-undefined-behaviour", trunc(ub["report"].as_str().unwrap_or(""), 900), json!({"kind":"miri","report":ub}));
        }
        for nc in v["not_completed"].as_array().cloned().unwrap_or_default() {
            self.inconclusive(format!("Miri shard {} did not complete: {}", nc["shard"], trunc(nc["tail"].as_str().unwrap_or(""), 300)));
        }
        self.count("miri_shards_ok", v["ok"].as_u64().unwrap_or(0));
        self.count("calls_executed_under_miri", v["calls_under_miri"].as_u64().unwrap_or(0));
        json!({"shards": v["shards"], "ok": v["ok"], "calls_under_miri": v["calls_under_miri"]})
    }

    /// Merge a thread-local batch (cheaper than locking per event).
    pub fn merge(&self, b: Batch) {
        let mut g = self.inner.lock().unwrap();
        g.evaluations += b.evaluations;
        for h in b.distinct {
            g.distinct.insert(h);
        }
        for (k, v) in b.counters {
            *g.counters.entry(k).or_insert(0) += v;
        }
        for (k, v) in b.maxima {
            let e = g.maxima.entry(k).or_insert(f64::NEG_INFINITY);
            if v > *e {
                *e = v;
            }
        }
        for s in b.samples {
            if g.samples.len() < 6 {
                g.samples.push(s);
            }
        }
    }

    /// Writes evidence + replay files, prints verdict lines, returns the process exit code.
    pub fn finish(&self, rule: &str, assumptions: &[&str], extra: Value) -> i32 {
        let mut guard = self.inner.lock().unwrap();
        let g: &mut CtxInner = &mut guard;
        let root = out_root();
        let known = load_known_findings();
        let mut exit = 0;

        // classify violations
        let mut unknown: Vec<&Violation> = vec![];
        let mut known_hits: BTreeMap<String, (usize, String)> = BTreeMap::new();
        for v in &g.violations {
            if let Some(k) = known
                .iter()
                .find(|k| k.status == "known" && k.property == v.property && k.signature == v.signature)
            {
                let e = known_hits.entry(v.signature.clone()).or_insert((0, k.description.clone()));
                e.0 += 1;
            } else {
                unknown.push(v);
            }
        }
        for (sig, (n, desc)) in &known_hits {
            let total = g.counters.get(&format!("violations[{sig}]")).copied().unwrap_or(*n as u64);
            say(&format!("KNOWN-FINDING: property={} signature={} occurrences={} {}",
                self.property, sig, total, desc
            ));
        }
        let rdir = root.join("replays").join(&self.property);
        if !unknown.is_empty() {
            let _ = std::fs::create_dir_all(&rdir);
        }
        let mut per_sig: BTreeMap<String, usize> = BTreeMap::new();
        for v in &unknown {
            let n = per_sig.entry(v.signature.clone()).or_insert(0);
            *n += 1;
            if *n > 5 {
                continue;
            }
            let fname = format!(
                "{}_{}_{}_{}.json",
                self.tier.name(),
                self.seed,
                sanitize(&v.signature),
                n
            );
            let path = match &self.replay_of {
                Some(p) => PathBuf::from(p),
                None => rdir.join(fname),
            };
            let body = json!({
                "property": v.property, "signature": v.signature, "detail": v.detail,
                "tier": self.tier.name(), "seed": self.seed, "replay": v.replay,
            });
            if self.replay_of.is_none() {
                let _ = std::fs::write(&path, serde_json::to_string_pretty(&body).unwrap());
            }
            say(&format!("VIOLATION property={} replay={}", self.property, path.display()));
            say(&format!("  signature={} detail={}", v.signature, trunc(&v.detail, 600)));
            exit = 1;
        }

        // required event classes
        let mut missing = vec![];
        for r in g.required.clone() {
            if g.counters.get(&r).copied().unwrap_or(0) == 0 {
                missing.push(r);
            }
        }
        let mut inconcl = g.inconclusive.clone();
        for m in &missing {
            inconcl.push(format!("required event class never observed: {m}"));
        }
        if exit == 0 && !inconcl.is_empty() {
            for i in inconcl.iter().take(10) {
                say(&format!("INCONCLUSIVE property={} {}", self.property, i));
            }
            exit = 2;
        }

        let wall = self.start.elapsed().as_secs_f64();
        let counters: serde_json::Map<String, Value> =
            g.counters.iter().map(|(k, v)| (k.clone(), json!(v))).collect();
        let maxima: serde_json::Map<String, Value> =
            g.maxima.iter().map(|(k, v)| (k.clone(), fj(*v))).collect();
        if g.samples.is_empty() {
            g.samples.push(json!("no sample recorded"));
        }
        let mut coverage = json!({
            "evaluations": g.evaluations,
            "distinct_nontrivial": g.distinct.len(),
            "rule": rule,
            "samples": g.samples,
            "observed": counters,
            "worst_observed": maxima,
            "known_findings_hit": known_hits.iter().map(|(k,(n,_))| json!({"signature":k,"records":n})).collect::<Vec<_>>(),
            "inconclusive": inconcl,
            "notes": g.notes,
        });
        if let (Some(c), Some(e)) = (coverage.as_object_mut(), extra.as_object()) {
            for (k, v) in e {
                c.insert(k.clone(), v.clone());
            }
        }
        let ev = json!({
            "property_id": self.property,
            "tier": self.tier.name(),
            "seed": self.seed,
            "level": self.level,
            "coverage": coverage,
            "assumptions": assumptions,
            "wall_s": wall,
            "violations": unknown.len(),
            "verdict": match exit { 0 => "held on everything explored", 1 => "violated", _ => "inconclusive" },
        });
        if self.replay_of.is_none() {
            let edir = root.join("evidence");
            let _ = std::fs::create_dir_all(&edir);
            let _ = std::fs::write(
                edir.join(format!("{}.json", self.property)),
                serde_json::to_string_pretty(&ev).unwrap(),
            );
        }
        say(&format!("{} {} seed={} evaluations={} distinct_nontrivial={} violations={} known={} wall={:.1}s => {}",
            self.property,
            self.tier.name(),
            self.seed,
            g.evaluations,
            g.distinct.len(),
            unknown.len(),
            known_hits.len(),
            wall,
            match exit { 0 => "HELD", 1 => "VIOLATED", _ => "INCONCLUSIVE" }
        ));
        exit
    }
}

fn sanitize(s: &str) -> String {
    s.chars().map(|c| if c.is_ascii_alphanumeric() || c == '-' { c } else { '_' }).collect()
}
pub fn trunc(s: &str, n: usize) -> String {
    if s.len() <= n {
        s.to_string()
    } else {
        let mut e = n;
        while !s.is_char_boundary(e) {
            e -= 1;
        }
        format!("{}…", &s[..e])
    }
}

/// Per-thread accumulation merged into the Ctx at the end of a shard.
#[derive(Default)]
pub struct Batch {
    pub evaluations: u64,
    pub distinct: HashSet<u64>,
    pub counters: BTreeMap<String, u64>,
    pub maxima: BTreeMap<String, f64>,
    pub samples: Vec<Value>,
}
impl Batch {
    pub fn count(&mut self, k: &str, n: u64) {
        if let Some(v) = self.counters.get_mut(k) {
            *v += n;
        } else {
            self.counters.insert(k.to_string(), n);
        }
    }
    pub fn max(&mut self, k: &str, v: f64) {
        if let Some(e) = self.maxima.get_mut(k) {
            if v > *e {
                *e = v;
            }
        } else {
            self.maxima.insert(k.to_string(), v);
        }
    }
    pub fn sample(&mut self, v: Value) {
        if self.samples.len() < 3 {
            self.samples.push(v);
        }
    }
}

/// Run `n` shards on up to `threads` worker threads; each shard gets its index.
pub fn par_shards<F: Fn(usize) + Sync>(n: usize, threads: usize, f: F) {
    let next = std::sync::atomic::AtomicUsize::new(0);
    std::thread::scope(|s| {
        for _ in 0..threads.min(n).max(1) {
            s.spawn(|| loop {
                let i = next.fetch_add(1, std::sync::atomic::Ordering::SeqCst);
                if i >= n {
                    break;
                }
                f(i);
            });
        }
    });
}

pub fn n_threads() -> usize {
    std::env::var("VERIF_THREADS")
        .ok()
        .and_then(|s| s.parse().ok())
        .unwrap_or_else(|| std::thread::available_parallelism().map(|n| n.get()).unwrap_or(4))
        .min(16)
}
