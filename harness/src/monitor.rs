//! Monitors at the client boundary: the state space, goal and validity checker handed to the
//! planners. They forward to the real objects, append to an event log, tick the virtual
//! clock, script or fail samples and enforce a query budget.
use crate::spec::Kit;
use crate::world::{GoalMode, GoalSpec, World};
use oxmpl::base::error::StateSamplingError;
use oxmpl::base::goal::{Goal, GoalRegion, GoalSampleableRegion};
use oxmpl::base::space::StateSpace;
use oxmpl::base::validity::StateValidityChecker;
use rand::Rng;
use std::cell::RefCell;
use std::rc::Rc;

#[derive(Clone, Debug, PartialEq)]
pub enum Ev {
    Uniform(Vec<f64>),
    UniformErr,
    GoalSample(Vec<f64>),
    GoalSampleErr,
    Valid(Vec<f64>, bool),
    GoalSat(Vec<f64>, bool),
    /// marker inserted by the driver: a public API call begins / ends
    Call(&'static str),
    Ret(&'static str),
}

#[derive(Clone, Debug)]
pub struct Rec {
    pub ev: Ev,
    /// virtual time (ns) when the event began (before this event's own tick)
    pub vt: u64,
}

/// Sentinel unwinding payload: the query budget of one call was exhausted.
pub struct BudgetTrip;

pub struct Log {
    pub recs: Vec<Rec>,
    pub keep_events: bool,
    pub tick_sample: u64,
    pub tick_valid: u64,
    pub n_valid: u64,
    pub n_valid_call: u64,
    pub n_uniform: u64,
    pub n_goal_sample: u64,
    pub n_goal_sat: u64,
    pub n_distance: u64,
    pub n_interpolate: u64,
    /// max validity queries per public call before BudgetTrip
    pub budget: u64,
    /// online deadline monitor (C06): timeout of the running call in ns; a sampler call that
    /// begins later than `first clock read + timeout` is a late iteration
    pub timeout_ns: Option<u64>,
    pub late_samples: u64,
    pub worst_late_ns: u64,
    pub samples_in_call: u64,
    /// iteration-budget model only: a call that draws more samples than this has ignored its
    /// (virtual) deadline by a wide margin; unwinding with BudgetTrip keeps the checks fast
    /// when a change under test makes a planner spin
    pub sample_budget: Option<u64>,
    /// per-call pacing of the virtual clock: the k-th sampler call of the current public call
    /// costs `tick_plan[k]` instead of `tick_sample` (beyond the plan: `tick_sample`)
    pub tick_plan: Option<Vec<u64>>,
    /// callback latency in *real* time: the first `.1` validity queries of every public call
    /// sleep `.0` microseconds (results must not depend on how long user callbacks take)
    pub slow_valid: Option<(u64, u64)>,
}
pub type LogRc = Rc<RefCell<Log>>;

impl Log {
    pub fn new() -> LogRc {
        Rc::new(RefCell::new(Log {
            recs: vec![],
            keep_events: true,
            tick_sample: 1_000_000,
            tick_valid: 0,
            n_valid: 0,
            n_valid_call: 0,
            n_uniform: 0,
            n_goal_sample: 0,
            n_goal_sat: 0,
            n_distance: 0,
            n_interpolate: 0,
            budget: 20_000_000,
            timeout_ns: None,
            late_samples: 0,
            worst_late_ns: 0,
            samples_in_call: 0,
            sample_budget: None,
            tick_plan: None,
            slow_valid: None,
        }))
    }
    /// cost of the sampler call that has just been counted by `on_sampler_begin`
    pub fn sample_tick(&self) -> u64 {
        match &self.tick_plan {
            Some(p) => p.get(self.samples_in_call.saturating_sub(1) as usize).copied().unwrap_or(self.tick_sample),
            None => self.tick_sample,
        }
    }
    pub fn push(&mut self, ev: Ev) {
        if self.keep_events {
            let vt = oxmpl::verif::now_nanos().unwrap_or(0);
            self.recs.push(Rec { ev, vt });
        }
    }
    pub fn clear_events(&mut self) {
        self.recs.clear();
    }
    /// Called at the beginning of every sampler call (before its own tick).
    pub fn on_sampler_begin(&mut self) {
        crate::watch::event();
        self.samples_in_call += 1;
        if let Some(sb) = self.sample_budget {
            if self.samples_in_call > sb {
                self.sample_budget = None;
                std::panic::panic_any(BudgetTrip);
            }
        }
        if let (Some(t), Some(fr), Some(now)) = (self.timeout_ns, oxmpl::verif::first_read(), oxmpl::verif::now_nanos()) {
            if now > fr.saturating_add(t) {
                self.late_samples += 1;
                self.worst_late_ns = self.worst_late_ns.max(now - fr - t);
                // a call that has begun hundreds of iterations after its deadline ignores it:
                // unwind instead of running on to the query budget
                if self.late_samples > 300 {
                    std::panic::panic_any(BudgetTrip);
                }
            }
        }
    }
}

// ------------------------------------------------------------------------------------------
// Space monitor
// ------------------------------------------------------------------------------------------
#[derive(Clone, Debug)]
pub enum SampleMode {
    /// real behaviour: forward to the space with the planner's generator
    PlannerRng,
    /// samples come from the list (cyclic); the planner's generator is not touched
    Scripted(Vec<Vec<f64>>),
    /// real behaviour, but the k-th call (0-based, counted per MonSpace) returns Err
    FailAt(u64),
}

pub struct MonSpace<K: Kit> {
    pub kit: K,
    pub inner: K::SP,
    pub log: LogRc,
    pub mode: RefCell<SampleMode>,
    pub calls: RefCell<u64>,
}

impl<K: Kit> MonSpace<K> {
    pub fn new(kit: &K, log: &LogRc, mode: SampleMode) -> Result<Self, String> {
        Ok(MonSpace {
            kit: kit.clone(),
            inner: kit.build()?,
            log: log.clone(),
            mode: RefCell::new(mode),
            calls: RefCell::new(0),
        })
    }
    pub fn set_script(&self, s: Vec<Vec<f64>>) {
        *self.mode.borrow_mut() = SampleMode::Scripted(s);
        *self.calls.borrow_mut() = 0;
    }
}

impl<K: Kit> StateSpace for MonSpace<K> {
    type StateType = K::S;
    fn distance(&self, a: &K::S, b: &K::S) -> f64 {
        crate::watch::event();
        self.log.borrow_mut().n_distance += 1;
        self.inner.distance(a, b)
    }
    fn interpolate(&self, from: &K::S, to: &K::S, t: f64, out: &mut K::S) {
        crate::watch::event();
        self.log.borrow_mut().n_interpolate += 1;
        self.inner.interpolate(from, to, t, out)
    }
    fn enforce_bounds(&self, s: &mut K::S) {
        self.inner.enforce_bounds(s)
    }
    fn satisfies_bounds(&self, s: &K::S) -> bool {
        self.inner.satisfies_bounds(s)
    }
    fn sample_uniform(&self, rng: &mut impl Rng) -> Result<K::S, StateSamplingError> {
        let k = {
            let mut c = self.calls.borrow_mut();
            *c += 1;
            *c - 1
        };
        let mode = self.mode.borrow().clone();
        let r = match mode {
            SampleMode::PlannerRng => self.inner.sample_uniform(rng),
            SampleMode::Scripted(list) => Ok(self.kit.unflat(&list[(k as usize) % list.len()])),
            SampleMode::FailAt(n) => {
                if k == n {
                    Err(StateSamplingError::ZeroVolume)
                } else {
                    self.inner.sample_uniform(rng)
                }
            }
        };
        let mut l = self.log.borrow_mut();
        l.on_sampler_begin();
        l.n_uniform += 1;
        match &r {
            Ok(s) => {
                let f = K::flat(s);
                l.push(Ev::Uniform(f))
            }
            Err(_) => l.push(Ev::UniformErr),
        }
        let t = l.sample_tick();
        drop(l);
        oxmpl::verif::advance(t);
        r
    }
    fn get_longest_valid_segment_length(&self) -> f64 {
        self.inner.get_longest_valid_segment_length()
    }
}

// ------------------------------------------------------------------------------------------
// Goal monitor
// ------------------------------------------------------------------------------------------
pub struct MonGoal<K: Kit> {
    pub kit: K,
    pub sp: K::SP,
    pub centre: K::S,
    pub spec: GoalSpec,
    pub list: Vec<K::S>,
    pub log: LogRc,
    pub calls: RefCell<u64>,
    /// override: is_satisfied answers false for every state (used by C08 variants)
    pub never: bool,
}

impl<K: Kit> MonGoal<K> {
    pub fn new(kit: &K, log: &LogRc, spec: &GoalSpec) -> Result<Self, String> {
        let list = match &spec.mode {
            GoalMode::List(l) => l.iter().map(|f| kit.unflat(f)).collect(),
            _ => vec![],
        };
        Ok(MonGoal {
            kit: kit.clone(),
            sp: kit.build()?,
            centre: kit.unflat(&spec.centre),
            spec: spec.clone(),
            list,
            log: log.clone(),
            calls: RefCell::new(0),
            never: false,
        })
    }
    pub fn pure_satisfied(&self, s: &K::S) -> bool {
        if let Some((i, lo, hi)) = self.spec.window {
            let f = K::flat(s);
            if !(lo <= f[i] && f[i] <= hi) {
                return false;
            }
        }
        !self.never && self.sp.distance(s, &self.centre) <= self.spec.radius
    }
}

impl<K: Kit> Goal<K::S> for MonGoal<K> {
    fn is_satisfied(&self, s: &K::S) -> bool {
        crate::watch::event();
        let r = self.pure_satisfied(s);
        let mut l = self.log.borrow_mut();
        l.n_goal_sat += 1;
        let f = K::flat(s);
        l.push(Ev::GoalSat(f, r));
        r
    }
}
impl<K: Kit> GoalRegion<K::S> for MonGoal<K> {
    fn distance_goal(&self, s: &K::S) -> f64 {
        (self.sp.distance(s, &self.centre) - self.spec.radius).max(0.0)
    }
}
impl<K: Kit> GoalSampleableRegion<K::S> for MonGoal<K> {
    fn sample_goal(&self, rng: &mut impl Rng) -> Result<K::S, StateSamplingError> {
        let k = {
            let mut c = self.calls.borrow_mut();
            *c += 1;
            *c - 1
        };
        let r: Result<K::S, StateSamplingError> = if self.spec.fail_at == Some(k) {
            Err(StateSamplingError::GoalRegionUnsatisfiable)
        } else {
            match &self.spec.mode {
                GoalMode::Centre => Ok(self.centre.clone()),
                GoalMode::List(_) => Ok(self.list[(k as usize) % self.list.len()].clone()),
                GoalMode::Rng => {
                    // consumes the planner's generator: a uniform sample pulled into the ball
                    match self.sp.sample_uniform(rng) {
                        Err(_) => {
                            let _: f64 = rng.random();
                            Ok(self.centre.clone())
                        }
                        Ok(q) => {
                            let u: f64 = rng.random();
                            let d = self.sp.distance(&self.centre, &q);
                            if d <= self.spec.radius {
                                Ok(q)
                            } else {
                                let mut out = self.centre.clone();
                                let t = (self.spec.radius * u / d).clamp(0.0, 1.0);
                                self.sp.interpolate(&self.centre, &q, t, &mut out);
                                if self.sp.distance(&out, &self.centre) <= self.spec.radius {
                                    Ok(out)
                                } else {
                                    Ok(self.centre.clone())
                                }
                            }
                        }
                    }
                }
            }
        };
        let mut l = self.log.borrow_mut();
        l.on_sampler_begin();
        l.n_goal_sample += 1;
        match &r {
            Ok(s) => {
                let f = K::flat(s);
                l.push(Ev::GoalSample(f))
            }
            Err(_) => l.push(Ev::GoalSampleErr),
        }
        let t = l.sample_tick();
        drop(l);
        oxmpl::verif::advance(t);
        r
    }
}

// ------------------------------------------------------------------------------------------
// Validity-checker monitor
// ------------------------------------------------------------------------------------------
pub struct WorldEval<K: Kit> {
    pub sp: K::SP,
    pub world: World,
    pub shell_centres: Vec<Option<K::S>>,
}
impl<K: Kit> WorldEval<K> {
    pub fn new(kit: &K, world: &World) -> Result<Self, String> {
        let shell_centres = world
            .prims
            .iter()
            .map(|p| match p {
                crate::world::Prim::Shell { centre, .. } => Some(kit.unflat(centre)),
                _ => None,
            })
            .collect();
        Ok(WorldEval { sp: kit.build()?, world: world.clone(), shell_centres })
    }
    /// The pure validity function of the world.
    pub fn valid(&self, s: &K::S, flat: &[f64]) -> bool {
        for (i, p) in self.world.prims.iter().enumerate() {
            match p {
                crate::world::Prim::Slab { idx, lo, hi, gaps } => {
                    let x = flat[*idx];
                    if x >= *lo && x <= *hi {
                        let mut in_gap = false;
                        for (j, gl, gh) in gaps {
                            if flat[*j] >= *gl && flat[*j] <= *gh {
                                in_gap = true;
                                break;
                            }
                        }
                        if !in_gap {
                            return false;
                        }
                    }
                }
                crate::world::Prim::Shell { r_in, r_out, .. } => {
                    let d = self.sp.distance(s, self.shell_centres[i].as_ref().unwrap());
                    if d >= *r_in && d <= *r_out {
                        return false;
                    }
                }
            }
        }
        true
    }
}

pub struct MonChecker<K: Kit> {
    pub eval: WorldEval<K>,
    pub log: LogRc,
}
impl<K: Kit> StateValidityChecker<K::S> for MonChecker<K> {
    fn is_valid(&self, s: &K::S) -> bool {
        crate::watch::event();
        let flat = K::flat(s);
        let r = self.eval.valid(s, &flat);
        let mut l = self.log.borrow_mut();
        l.n_valid += 1;
        l.n_valid_call += 1;
        let trip = l.n_valid_call > l.budget;
        l.push(Ev::Valid(flat, r));
        let t = l.tick_valid;
        let nap = match l.slow_valid {
            Some((us, n)) if l.n_valid_call <= n => us,
            _ => 0,
        };
        drop(l);
        if nap > 0 {
            std::thread::sleep(std::time::Duration::from_micros(nap));
        }
        oxmpl::verif::advance(t);
        if trip {
            std::panic::panic_any(BudgetTrip);
        }
        r
    }
}
