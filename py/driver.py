#!/usr/bin/env python3
"""Executes the scenarios written by `oxverif pygen` through the oxmpl_py extension.

Usage: driver.py <scenarios.json> <results.json> [--only-ids 1,2,3]

Floats cross the boundary as "h:<16 hex digits>" (IEEE-754 bits). The callbacks evaluate the
same primitives as the Rust harness with the same operations: comparisons on coordinates and
the wrapper space's own `distance`.
"""
import json
import os
import struct
import sys
import time
import traceback


def dehex(v):
    if isinstance(v, str) and v.startswith("h:"):
        return struct.unpack(">d", bytes.fromhex(v[2:]))[0]
    if isinstance(v, list):
        return [dehex(x) for x in v]
    if isinstance(v, dict):
        return {k: dehex(x) for k, x in v.items()}
    return v


def enhex(v):
    if isinstance(v, float):
        return "h:" + struct.pack(">d", v).hex()
    if isinstance(v, list):
        return [enhex(x) for x in v]
    if isinstance(v, dict):
        return {k: enhex(x) for k, x in v.items()}
    return v


def pf(x):
    """Floats that were non-finite are spelled out by the generator."""
    if isinstance(x, str):
        return {"NaN": float("nan"), "inf": float("inf"), "-inf": float("-inf")}[x]
    return float(x)


def load_ext():
    from oxmpl_py import base, geometric  # noqa
    return base, geometric


def comp_width(k):
    return {"R": k.get("n", 0), "SO2": 1, "SO3": 4}[k["type"]]


class Builder:
    def __init__(self, base, spec):
        self.b = base
        self.spec = spec
        self.wrap = spec["wrap"]
        self.comps = spec["comps"]

    def comp_space(self, c):
        b = self.b
        k = c["kind"]
        t = k["type"]
        if t == "R":
            bounds = None if k["bounds"] is None else [(pf(p[0]), pf(p[1])) for p in k["bounds"]]
            sp = b.RealVectorStateSpace(k["n"], bounds)
        elif t == "SO2":
            bounds = None if k["bounds"] is None else (pf(k["bounds"][0]), pf(k["bounds"][1]))
            sp = b.SO2StateSpace(bounds)
        else:
            if k["bounds"] is None:
                sp = b.SO3StateSpace(None)
            else:
                ce = [pf(x) for x in k["bounds"]["centre"]]
                sp = b.SO3StateSpace((b.SO3State(*ce), pf(k["bounds"]["radius"])))
        if c.get("frac") is not None:
            sp.set_longest_valid_segment_fraction(pf(c["frac"]))
        return sp

    def space(self):
        b = self.b
        w = self.wrap
        if w in ("Rn", "SO2", "SO3"):
            return self.comp_space(self.comps[0])
        if w == "Compound":
            return b.CompoundStateSpace([self.comp_space(c) for c in self.comps], [pf(c["weight"]) for c in self.comps])
        if w == "SE2":
            rb = self.comps[0]["kind"]["bounds"]
            ab = self.comps[1]["kind"]["bounds"]
            bounds = None
            if rb is not None:
                bounds = [(pf(p[0]), pf(p[1])) for p in rb] + [(pf(ab[0]), pf(ab[1]))]
            return b.SE2StateSpace(pf(self.comps[1]["weight"]), bounds)
        if w == "SE3":
            rb = self.comps[0]["kind"]["bounds"]
            bounds = None if rb is None else [(pf(p[0]), pf(p[1])) for p in rb]
            return b.SE3StateSpace(pf(self.comps[1]["weight"]), bounds)
        raise ValueError("unknown wrap " + w)

    def comp_state(self, k, v):
        b = self.b
        t = k["type"]
        if t == "R":
            return b.RealVectorState(list(v))
        if t == "SO2":
            return b.SO2State(v[0])
        return b.SO3State(v[0], v[1], v[2], v[3])

    def state(self, flat):
        b = self.b
        w = self.wrap
        if w in ("Rn", "SO2", "SO3"):
            return self.comp_state(self.comps[0]["kind"], flat)
        if w == "Compound":
            out = []
            o = 0
            for c in self.comps:
                n = comp_width(c["kind"])
                out.append(self.comp_state(c["kind"], flat[o:o + n]))
                o += n
            return b.CompoundState(out)
        if w == "SE2":
            return b.SE2State(flat[0], flat[1], flat[2])
        if w == "SE3":
            return b.SE3State(flat[0], flat[1], flat[2], b.SO3State(flat[3], flat[4], flat[5], flat[6]))
        raise ValueError(w)

    def comp_flat(self, k, s):
        t = k["type"]
        if t == "R":
            return list(s.values)
        if t == "SO2":
            return [s.value]
        return [s.x, s.y, s.z, s.w]

    def flat(self, s):
        w = self.wrap
        if w in ("Rn", "SO2", "SO3"):
            return self.comp_flat(self.comps[0]["kind"], s)
        if w == "Compound":
            out = []
            for c, comp in zip(self.comps, s.components):
                out.extend(self.comp_flat(c["kind"], comp))
            return out
        if w == "SE2":
            return [s.x, s.y, s.yaw]
        if w == "SE3":
            r = s.rotation
            return [s.x, s.y, s.z, r.x, r.y, r.z, r.w]
        raise ValueError(w)

    def problem_definition(self, space, start, goal):
        pd = self.b.ProblemDefinition
        return {
            "Rn": pd.from_real_vector, "SO2": pd.from_so2, "SO3": pd.from_so3,
            "Compound": pd.from_compound, "SE2": pd.from_se2, "SE3": pd.from_se3,
        }[self.wrap](space, start, goal)


class Prims:
    """Pure evaluation of world primitives: True = the primitive marks the state invalid."""

    def __init__(self, builder, space, prims):
        self.space = space
        self.items = []
        for p in prims:
            if "slab" in p:
                s = p["slab"]
                self.items.append(("slab", s["idx"], pf(s["lo"]), pf(s["hi"]), [(g[0], pf(g[1]), pf(g[2])) for g in s["gaps"]]))
            else:
                s = p["shell"]
                self.items.append(("shell", builder.state([pf(x) for x in s["centre"]]), pf(s["r_in"]), pf(s["r_out"])))

    def hit(self, state, flat):
        for it in self.items:
            if it[0] == "slab":
                _, idx, lo, hi, gaps = it
                x = flat[idx]
                if x >= lo and x <= hi:
                    in_gap = False
                    for (j, gl, gh) in gaps:
                        if flat[j] >= gl and flat[j] <= gh:
                            in_gap = True
                            break
                    if not in_gap:
                        return True
            else:
                _, centre, r_in, r_out = it
                d = self.space.distance(state, centre)
                if d >= r_in and d <= r_out:
                    return True
        return False


class FaultRaised(Exception):
    pass


def bad_value(kind):
    if kind == "none":
        return None
    if kind == "str":
        return "yes"
    if kind == "int":
        return 1
    if kind == "list":
        return []
    if kind == "float":
        return 1.0
    if kind == "tuple":
        # a "verdict with a reason": not a bool, whatever its first element says
        return (True, "penetration depth unknown")
    if kind == "truthy":
        return Truthy()
    if kind == "array0d":
        return Array0d(True)
    raise AssertionError(kind)


class Truthy:
    """An object that is true in a boolean context but is not a bool."""

    def __bool__(self):
        return True


class Array0d:
    """Looks like a zero-dimensional array holding True (item(), __bool__, __array__-free):
    still not a bool."""

    def __init__(self, v):
        self.v = v

    def item(self):
        return self.v

    def __bool__(self):
        return bool(self.v)

    def tolist(self):
        return self.v


class BadStrError(Exception):
    """An exception that cannot even be printed."""

    def __str__(self):
        return "collision at depth " + 3  # TypeError

    __repr__ = __str__


class Fault:
    def __init__(self, builder, space, spec):
        self.spec = spec
        self.calls = 0
        self.fired = 0
        self.region = None
        if spec is not None:
            self.region = Prims(builder, space, [spec["region"]])

    def applies(self, state, flat):
        """Does the fault apply to this call? (counts calls of the targeted callback)"""
        k = self.calls
        self.calls += 1
        if self.spec is None:
            return False
        if self.spec["when"] == "kth":
            return k == self.spec["k"]
        if self.spec["when"] == "window":
            # a long uninterrupted streak of failing calls, after which the callback works again
            return self.spec["k"] <= k < self.spec["k"] + self.spec["len"]
        return self.region.hit(state, flat)

    def act(self, false_value):
        self.fired += 1
        kind = self.spec["kind"]
        if kind == "false":
            return false_value
        if kind == "raise":
            raise FaultRaised("injected callback failure")
        # other exception classes a callback may plausibly let escape; none of them may be
        # treated differently from a plain failure (SystemExit is left out: printing it ends
        # the interpreter by design)
        if kind == "raise-interrupted":
            raise InterruptedError("injected EINTR")
        if kind == "raise-keyboard":
            raise KeyboardInterrupt()
        if kind == "raise-generatorexit":
            raise GeneratorExit()
        if kind == "raise-stopiteration":
            raise StopIteration()
        if kind == "raise-memory":
            raise MemoryError()
        if kind == "raise-badstr":
            raise BadStrError()
        return bad_value(kind)


class Goal:
    def __init__(self, builder, space, goal, fault):
        self.builder = builder
        self.space = space
        self.centre = builder.state([pf(x) for x in goal["centre"]])
        self.radius = pf(goal["radius"])
        mode = goal["mode"]
        self.list = None
        if isinstance(mode, dict):
            self.list = [builder.state([pf(x) for x in f]) for f in mode["list"]]
        self.k = 0
        self.fault = fault

    def is_satisfied(self, state):
        if self.fault is not None and self.fault.applies(state, self.builder.flat(state)):
            return self.fault.act(False)
        return self.space.distance(state, self.centre) <= self.radius

    def distance_goal(self, state):
        return max(0.0, self.space.distance(state, self.centre) - self.radius)

    # The goal object also happens to be callable (user classes often are) and says yes to
    # everything: the documented interface never calls it, so this must not matter - in
    # particular not as a fallback when `is_satisfied` fails.
    def __call__(self, *args, **kwargs):
        return True

    def sample_goal(self):
        k = self.k
        self.k += 1
        if self.list is not None:
            return self.list[k % len(self.list)]
        return self.centre


def run_scenario(base, geometric, sc):
    t0 = time.time()
    bld = Builder(base, sc["spec"])
    space = bld.space()
    world = Prims(bld, space, sc["world"])
    fspec = sc.get("fault")
    vfault = Fault(bld, space, fspec if (fspec and fspec["target"] == "validity") else None)
    gfault = Fault(bld, space, fspec) if (fspec and fspec["target"] == "goal") else None
    goal = Goal(bld, space, sc["goal"], gfault)
    start = bld.state([pf(x) for x in sc["start"]])
    pd = bld.problem_definition(space, start, goal)
    pl = sc["planner"]
    cfg = base.PlannerConfig(seed=pl["seed"])
    kind = pl["kind"]
    if kind == "RRT":
        planner = geometric.RRT(pf(pl["max_distance"]), pf(pl["goal_bias"]), pd, cfg)
    elif kind == "RRTConnect":
        planner = geometric.RRTConnect(pf(pl["max_distance"]), pf(pl["goal_bias"]), pd, cfg)
    elif kind == "RRTStar":
        planner = geometric.RRTStar(pf(pl["max_distance"]), pf(pl["goal_bias"]), pf(pl["search_radius"]), pd, cfg)
    else:
        planner = geometric.PRM(pf(pl["prm_build_secs"]), pf(pl["connection_radius"]), pd, cfg)

    def is_valid(state):
        flat = bld.flat(state)
        if vfault.applies(state, flat):
            return vfault.act(False)
        return not world.hit(state, flat)

    planner.setup(is_valid)
    out = {"id": sc["id"]}
    try:
        if kind == "PRM":
            planner.construct_roadmap()
        path = planner.solve(pf(sc["timeout_secs"]))
        out["outcome"] = "path"
        out["path"] = [bld.flat(s) for s in path.states]
    except (FaultRaised, BadStrError, KeyboardInterrupt, GeneratorExit, InterruptedError, StopIteration, MemoryError):
        out["outcome"] = "error"
        out["message"] = "injected exception escaped to the caller"
    except Exception as e:  # planner errors are plain Exceptions with the core's message
        out["outcome"] = "error"
        out["message"] = str(e)
    except BaseException as e:  # e.g. pyo3's PanicException: the extension panicked
        if isinstance(e, SystemExit):
            raise
        out["outcome"] = "error"
        out["message"] = "escaped to the caller: " + type(e).__name__
    out["validity_calls"] = vfault.calls
    out["goal_sample_calls"] = goal.k
    out["faults_fired"] = vfault.fired + (gfault.fired if gfault else 0)
    out["wall_s"] = time.time() - t0
    return out


def run_wrapper(base, w):
    ctor = w["ctor"]
    out = {}
    try:
        if "expect_value" in w:
            v = pf(w["value"])
            if ctor == "SO2State":
                out["value"] = base.SO2State(v).value
            else:
                out["value"] = base.SE2State(0.5, -0.5, v).yaw
            return out
        if ctor == "RealVectorStateSpace":
            sp = base.RealVectorStateSpace(w["dimension"], [(pf(p[0]), pf(p[1])) for p in w["bounds"]])
            mk = lambda f: base.RealVectorState([pf(x) for x in f])
        elif ctor == "SO2StateSpace":
            sp = base.SO2StateSpace((pf(w["bounds"][0]), pf(w["bounds"][1])))
            mk = lambda f: base.SO2State(pf(f[0]))
        elif ctor == "SO3StateSpace":
            ce = [pf(x) for x in w["centre"]]
            sp = base.SO3StateSpace((base.SO3State(*ce), pf(w["radius"])))
            mk = lambda f: base.SO3State(*[pf(x) for x in f])
        elif ctor == "SE2StateSpace":
            sp = base.SE2StateSpace(pf(w["weight"]), [(pf(p[0]), pf(p[1])) for p in w["bounds"]])
            mk = lambda f: base.SE2State(pf(f[0]), pf(f[1]), pf(f[2]))
        elif ctor == "SE3StateSpace":
            sp = base.SE3StateSpace(pf(w["weight"]), [(pf(p[0]), pf(p[1])) for p in w["bounds"]])
            mk = lambda f: base.SE3State(pf(f[0]), pf(f[1]), pf(f[2]), base.SO3State(pf(f[3]), pf(f[4]), pf(f[5]), pf(f[6])))
        elif ctor == "CompoundStateSpace":
            subs = [base.SO2StateSpace(None) for _ in range(w["n_subspaces"])]
            sp = base.CompoundStateSpace(subs, [pf(x) for x in w["weights"]])
            mk = lambda f: base.CompoundState([base.SO2State(pf(x)) for x in f])
        else:
            raise AssertionError(ctor)
        out["outcome"] = "ok"
        probes = []
        for p in w.get("probes", []) or []:
            if p["op"] == "distance":
                probes.append(sp.distance(mk(p["a"]), mk(p["b"])))
            else:
                probes.append(sp.get_maximum_extent())
        out["probes"] = probes
    except ValueError as e:
        out["outcome"] = "ValueError"
        out["message"] = str(e)
    except Exception as e:
        out["outcome"] = type(e).__name__
        out["message"] = str(e)
    return out


_WORKER = {}


def _worker_init(err_prefix):
    base, geometric = load_ext()
    _WORKER["base"] = base
    _WORKER["geometric"] = geometric
    # pyo3 prints the traceback of every failing callback on stderr: send it to a file
    path = "%s.%d" % (err_prefix, os.getpid())
    fd = os.open(path, os.O_WRONLY | os.O_CREAT | os.O_TRUNC, 0o644)
    os.dup2(fd, 2)
    # the planners print on success: keep stdout quiet
    nul = os.open(os.devnull, os.O_WRONLY)
    os.dup2(nul, 1)


def _worker_run(sc):
    try:
        return run_scenario(_WORKER["base"], _WORKER["geometric"], sc)
    except Exception:
        return {"id": sc["id"], "outcome": "driver-error", "message": traceback.format_exc()[-800:]}


def main():
    import glob
    import multiprocessing
    scen_path, res_path = sys.argv[1], sys.argv[2]
    only = None
    prop = None
    jobs = min(16, os.cpu_count() or 1)
    inline = False
    args = sys.argv[3:]
    if "--inline" in args:
        args.remove("--inline")
        inline = True
    while args:
        if args[0] == "--only-ids":
            only = set(int(x) for x in args[1].split(","))
        elif args[0] == "--prop":
            prop = args[1]
        elif args[0] == "--jobs":
            jobs = max(1, int(args[1]))
        args = args[2:]
    doc = dehex(json.load(open(scen_path)))
    results = {"results": [], "wrappers": []}
    try:
        base, geometric = load_ext()
    except Exception as e:
        json.dump({"fatal": "cannot import oxmpl_py: %r" % (e,)}, open(res_path, "w"))
        return 0
    todo = [sc for sc in doc["scenarios"] if (only is None or sc["id"] in only) and (prop is None or sc["prop"] == prop)]
    err_prefix = res_path + ".stderr"
    for old in glob.glob(err_prefix + ".*"):
        os.remove(old)
    if inline:
        _worker_init(err_prefix)
        results["results"] = [_worker_run(sc) for sc in todo]
    else:
        # A worker that dies (a crash inside the extension) must not hang the run: with
        # ProcessPoolExecutor a dead worker breaks the pool; whatever is unfinished is then
        # re-run one scenario per subprocess so that the crashing scenario is identified.
        import concurrent.futures as cf
        import subprocess
        done = {}
        ctx = multiprocessing.get_context("fork")
        try:
            with cf.ProcessPoolExecutor(max_workers=jobs, mp_context=ctx, initializer=_worker_init, initargs=(err_prefix,)) as ex:
                futs = {ex.submit(_worker_run, sc): sc["id"] for sc in todo}
                for f in cf.as_completed(futs):
                    try:
                        done[futs[f]] = f.result()
                    except Exception:
                        pass
        except Exception:
            pass
        for sc in todo:
            if sc["id"] in done:
                continue
            tmp = "%s.single.%d" % (res_path, sc["id"])
            try:
                pr = subprocess.run([sys.executable, os.path.abspath(__file__), scen_path, tmp, "--only-ids", str(sc["id"]), "--inline"],
                                    stdout=subprocess.DEVNULL, stderr=subprocess.DEVNULL, timeout=300)
                if pr.returncode == 0 and os.path.exists(tmp):
                    one = dehex(json.load(open(tmp)))["results"]
                    done[sc["id"]] = one[0] if one else {"id": sc["id"], "outcome": "driver-error", "message": "no result"}
                else:
                    done[sc["id"]] = {"id": sc["id"], "outcome": "crash", "message": "interpreter exited with %d while running this scenario" % pr.returncode}
            except subprocess.TimeoutExpired:
                done[sc["id"]] = {"id": sc["id"], "outcome": "driver-error", "message": "single-scenario rerun timed out"}
            finally:
                if os.path.exists(tmp):
                    os.remove(tmp)
        results["results"] = [done[sc["id"]] for sc in todo]
    if only is None and prop in (None, "C19"):
        for w in doc.get("wrappers", []):
            results["wrappers"].append(run_wrapper(base, w))
    total = 0
    for f in glob.glob(err_prefix + ".*"):
        total += os.path.getsize(f)
        os.remove(f)
    results["stderr_bytes"] = total
    json.dump(enhex(results), open(res_path, "w"))
    return 0


if __name__ == "__main__":
    sys.exit(main())
